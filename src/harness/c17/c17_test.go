package pqueue

// C17 — request throttles never exceed their limit, never deadlock, never lose a slot.
//
// The real Queue (compiled with its "sync" import redirected to the vsync shim) is driven by 2–5
// goroutines under the controlled scheduler; every interleaving at the mutex acquisitions within the
// stated bound is executed and judged.

import (
	"context"
	"encoding/json"
	"fmt"
	"os"
	"sort"
	"strings"
	"testing"

	"github.com/regclient/regclient/internal/reqmeta"
	"github.com/regclient/regclient/internal/verif/ev"
	"github.com/regclient/regclient/internal/verif/explore"
	"github.com/regclient/regclient/internal/verif/qsched"
)

type c17op struct {
	kind byte // A acquire, T try-acquire, M multi-acquire, C acquire with a context that gets cancelled
	qs   []int
}

func (o c17op) String() string {
	s := string(o.kind)
	for _, q := range o.qs {
		s += fmt.Sprint(q)
	}
	return s
}

type c17scen struct {
	maxes    []int
	progs    [][]c17op
	dataNext bool
}

func (sc c17scen) String() string {
	var ps []string
	for _, p := range sc.progs {
		var os []string
		for _, o := range p {
			os = append(os, o.String())
		}
		ps = append(ps, strings.Join(os, "."))
	}
	return fmt.Sprintf("max=%v next=%v progs=%s", sc.maxes, sc.dataNext, strings.Join(ps, "|"))
}

type c17run struct {
	sc      c17scen
	qs      []*Queue[reqmeta.Data]
	holders []int
	trace   []string
	viol    string
	vkey    string
	res     []string
	cctx    map[[2]int]context.Context
	cancel  map[[2]int]context.CancelFunc
	cancd   map[[2]int]bool
}

func (h *c17run) fail(key, format string, a ...any) {
	if h.viol == "" {
		h.vkey = key
		h.viol = fmt.Sprintf(format, a...)
	}
}

func (h *c17run) enter(ti int, q int) {
	h.holders[q]++
	h.trace = append(h.trace, fmt.Sprintf("+%d@%d", ti, q))
	if h.holders[q] > h.sc.maxes[q] {
		h.fail("over-limit", "queue %d has %d holders, limit %d; trace %v", q, h.holders[q], h.sc.maxes[q], h.trace)
	}
}

func (h *c17run) leave(ti int, q int) {
	h.holders[q]--
	h.trace = append(h.trace, fmt.Sprintf("-%d@%d", ti, q))
}

func (h *c17run) entry(ti, oi int) reqmeta.Data {
	k := reqmeta.Blob
	if ti%2 == 1 {
		k = reqmeta.Manifest
	}
	return reqmeta.Data{Kind: k, Size: int64(1000*(ti+1) + oi)}
}

func (h *c17run) thread(ti int) func(s *qsched.Sched) {
	return func(s *qsched.Sched) {
		ctx := context.Background()
		for oi, op := range h.sc.progs[ti] {
			e := h.entry(ti, oi)
			s.ResetLocal()
			switch op.kind {
			case 'A':
				q := op.qs[0]
				done, err := h.qs[q].Acquire(ctx, e)
				if err != nil || done == nil {
					h.fail("acquire-failed", "t%d Acquire(q%d) returned done=%v err=%v without cancellation", ti, q, done != nil, err)
					return
				}
				h.enter(ti, q)
				s.Yield("hold")
				h.leave(ti, q)
				done()
				h.res[ti] += "a"
			case 'T':
				q := op.qs[0]
				done, err := h.qs[q].TryAcquire(ctx, e)
				if err != nil {
					h.fail("try-error", "t%d TryAcquire(q%d) err=%v", ti, q, err)
					return
				}
				if done != nil {
					h.enter(ti, q)
					s.Yield("hold")
					h.leave(ti, q)
					done()
					h.res[ti] += "t"
				} else {
					h.res[ti] += "f"
				}
			case 'M':
				ql := make([]*Queue[reqmeta.Data], len(op.qs))
				for i, q := range op.qs {
					ql[i] = h.qs[q]
				}
				ctx2, done, err := AcquireMulti(ctx, e, ql...)
				if err != nil || done == nil {
					h.fail("multi-failed", "t%d AcquireMulti(%v) done=%v err=%v", ti, op.qs, done != nil, err)
					return
				}
				for _, q := range op.qs {
					h.enter(ti, q)
				}
				// inside the transaction an Acquire on a member queue succeeds at once
				d2, err := h.qs[op.qs[len(op.qs)-1]].Acquire(ctx2, e)
				if err != nil || d2 == nil {
					h.fail("multi-nested", "t%d nested Acquire inside AcquireMulti failed: %v", ti, err)
					return
				}
				d2()
				s.Yield("hold")
				for _, q := range op.qs {
					h.leave(ti, q)
				}
				done()
				h.res[ti] += "m"
			case 'C':
				q := op.qs[0]
				k := [2]int{ti, oi}
				done, err := h.qs[q].Acquire(h.cctx[k], e)
				if err != nil {
					if done != nil {
						h.fail("cancel-kept-slot", "t%d cancelled Acquire returned both an error and a release function", ti)
						return
					}
					if !h.cancd[k] {
						h.fail("spurious-error", "t%d Acquire returned %v before its context was cancelled", ti, err)
						return
					}
					h.res[ti] += "x"
				} else {
					if done == nil {
						h.fail("acquire-failed", "t%d Acquire(q%d) returned nil,nil", ti, q)
						return
					}
					h.enter(ti, q)
					s.Yield("hold")
					h.leave(ti, q)
					done()
					h.res[ti] += "c"
				}
			}
		}
	}
}

func (h *c17run) stateKey(s *qsched.Sched) string {
	var sb strings.Builder
	for qi, q := range h.qs {
		fmt.Fprintf(&sb, "q%d[", qi)
		for _, p := range q.active {
			fmt.Fprintf(&sb, "%d,", p.Size)
		}
		sb.WriteString("/")
		for _, p := range q.queued {
			fmt.Fprintf(&sb, "%d,", p.Size)
		}
		fmt.Fprintf(&sb, "]h%d;", h.holders[qi])
	}
	for ti, r := range h.res {
		fmt.Fprintf(&sb, "t%d=%s;", ti, r)
	}
	ks := make([]string, 0, len(h.cancd))
	for k, v := range h.cancd {
		if v {
			ks = append(ks, fmt.Sprint(k))
		}
	}
	sort.Strings(ks)
	sb.WriteString(strings.Join(ks, ""))
	if h.viol != "" {
		sb.WriteString("!V")
	}
	return sb.String()
}

func c17Exec(t *testing.T, c *explore.Ctx, sc c17scen, cfg qsched.Config) explore.Result {
	h := &c17run{sc: sc, holders: make([]int, len(sc.maxes)), res: make([]string, len(sc.progs)),
		cctx: map[[2]int]context.Context{}, cancel: map[[2]int]context.CancelFunc{}, cancd: map[[2]int]bool{}}
	var out qsched.Outcome
	leaked, other := qsched.Bubble(t, func() {
		for qi, m := range sc.maxes {
			o := Opts[reqmeta.Data]{Max: m}
			if sc.dataNext {
				o.Next = reqmeta.DataNext
			}
			q := New(o)
			q.mu.Name = fmt.Sprintf("q%d", qi)
			h.qs = append(h.qs, q)
		}
		threads := map[string]func(s *qsched.Sched){}
		var names []string
		for ti := range sc.progs {
			n := fmt.Sprintf("t%d", ti)
			names = append(names, n)
			threads[n] = h.thread(ti)
		}
		for ti, p := range sc.progs {
			for oi, op := range p {
				if op.kind == 'C' {
					k := [2]int{ti, oi}
					h.cctx[k], h.cancel[k] = context.WithCancel(context.Background())
					n := fmt.Sprintf("x%d.%d", ti, oi)
					names = append(names, n)
					threads[n] = func(s *qsched.Sched) {
						h.cancd[k] = true
						h.cancel[k]()
					}
				}
			}
		}
		if cfg.StateKey != nil {
			cfg.StateKey = h.stateKey
		}
		out = qsched.Run(c, cfg, threads, names)
		if out.Deadlock || out.Panic != nil {
			return
		}
		// end state: nothing held, nothing queued, every slot available again
		for qi, q := range h.qs {
			if h.holders[qi] != 0 {
				h.fail("holders-left", "queue %d: harness holder count %d at the end", qi, h.holders[qi])
			}
			if len(q.active) != 0 || len(q.queued) != 0 || len(q.wait) != 0 {
				h.fail("slot-leaked", "queue %d not empty after all callers finished: active=%d queued=%d wait=%d (results %v, trace %v)", qi, len(q.active), len(q.queued), len(q.wait), h.res, h.trace)
				continue
			}
			var rel []func()
			for i := 0; i < sc.maxes[qi]; i++ {
				d, err := q.TryAcquire(context.Background(), reqmeta.Data{Size: int64(9000 + i)})
				if err != nil || d == nil {
					h.fail("slot-leaked", "queue %d: fresh TryAcquire %d of %d failed after all callers finished", qi, i+1, sc.maxes[qi])
					break
				}
				rel = append(rel, d)
			}
			if d, _ := q.TryAcquire(context.Background(), reqmeta.Data{Size: 9999}); d != nil {
				h.fail("over-limit", "queue %d: TryAcquire succeeded beyond the limit %d", qi, sc.maxes[qi])
				d()
			}
			for _, d := range rel {
				d()
			}
		}
	})
	for _, cf := range h.cancel {
		cf()
	}
	if other != nil {
		h.fail("panic", "panic outside threads: %v", other)
	}
	if out.Panic != nil {
		h.fail("panic", "%v", out.Panic)
	}
	if out.Deadlock {
		h.fail("deadlock", "deadlock: %s results=%v trace=%v", out.DeadlockAt, h.res, h.trace)
	} else if leaked && h.viol == "" {
		h.fail("leaked-goroutine", "goroutines left blocked after all callers returned; results=%v", h.res)
	}
	if out.Horizon {
		c.Logf("horizon reached")
	}
	c.Logf("res=%v trace=%v", h.res, h.trace)
	r := explore.Result{Outcome: strings.Join(h.res, "|") + " " + strings.Join(h.trace, "")}
	if out.Horizon {
		r.Outcome = "H " + r.Outcome
	}
	if h.viol != "" {
		r.Violation = h.viol
		r.VKey = h.vkey
	}
	return r
}

func c17Ops(nq int, kinds string) []c17op {
	var ops []c17op
	for _, k := range kinds {
		switch k {
		case 'A', 'T', 'C':
			for q := 0; q < nq; q++ {
				ops = append(ops, c17op{byte(k), []int{q}})
			}
		case 'M':
			switch nq {
			case 2:
				ops = append(ops, c17op{'M', []int{0, 1}}, c17op{'M', []int{1, 0}})
			case 3:
				ops = append(ops, c17op{'M', []int{0, 1}}, c17op{'M', []int{1, 2}}, c17op{'M', []int{2, 0}},
					c17op{'M', []int{0, 1, 2}}, c17op{'M', []int{2, 1, 0}})
			}
		}
	}
	return ops
}

// multisets of k programs out of progs (threads are symmetric up to creation order)
func c17Multisets(progs [][]c17op, k int) [][][]c17op {
	var out [][][]c17op
	var rec func(start int, cur [][]c17op)
	rec = func(start int, cur [][]c17op) {
		if len(cur) == k {
			out = append(out, append([][]c17op{}, cur...))
			return
		}
		for i := start; i < len(progs); i++ {
			rec(i, append(cur, progs[i]))
		}
	}
	rec(0, nil)
	return out
}

func c17Progs(ops []c17op, maxLen int) [][]c17op {
	var out [][]c17op
	for _, o := range ops {
		out = append(out, []c17op{o})
	}
	if maxLen >= 2 {
		for _, a := range ops {
			for _, b := range ops {
				out = append(out, []c17op{a, b})
			}
		}
	}
	return out
}

func c17Scenarios(thorough bool) []c17scen {
	var scs []c17scen
	add := func(maxes []int, next bool, progs [][]c17op, ns ...int) {
		for _, n := range ns {
			for _, ms := range c17Multisets(progs, n) {
				scs = append(scs, c17scen{maxes: maxes, progs: ms, dataNext: next})
			}
		}
	}
	one := c17Ops(1, "ATC")
	for _, m := range []int{1, 2} {
		add([]int{m}, false, c17Progs(one, 1), 2, 3, 4)
		add([]int{m}, false, c17Progs(one, 2), 2)
		add([]int{m}, true, c17Progs(c17Ops(1, "AC"), 1), 3, 4)
		if thorough {
			add([]int{m}, false, c17Progs(one, 2), 3)
			add([]int{m}, true, c17Progs(c17Ops(1, "AC"), 1), 5)
			add([]int{m}, false, c17Progs(c17Ops(1, "AC"), 1), 5)
		}
	}
	if thorough {
		add([]int{3}, false, c17Progs(one, 1), 4, 5)
		add([]int{3}, true, c17Progs(c17Ops(1, "AC"), 1), 5)
	}
	two := []c17op{{'A', []int{0}}, {'A', []int{1}}, {'T', []int{1}}, {'C', []int{0}}, {'M', []int{0, 1}}, {'M', []int{1, 0}}}
	for _, mx := range [][]int{{1, 1}, {1, 2}, {2, 2}} {
		add(mx, false, c17Progs(two, 1), 2, 3)
		if thorough {
			add(mx, false, c17Progs([]c17op{{'A', []int{0}}, {'C', []int{1}}, {'M', []int{0, 1}}, {'M', []int{1, 0}}}, 1), 4)
			add(mx, false, c17Progs([]c17op{{'M', []int{0, 1}}, {'M', []int{1, 0}}, {'C', []int{0}}}, 2), 2)
		}
	}
	add([]int{1, 1}, false, c17Progs([]c17op{{'M', []int{0, 1}}, {'M', []int{1, 0}}, {'A', []int{0}}}, 1), 4)
	three := []c17op{{'M', []int{0, 1}}, {'M', []int{1, 2}}, {'M', []int{2, 0}}, {'M', []int{0, 1, 2}}, {'M', []int{2, 1, 0}}, {'A', []int{1}}, {'C', []int{2}}}
	add([]int{1, 1, 1}, false, c17Progs(three, 1), 3)
	if thorough {
		add([]int{1, 2, 1}, false, c17Progs(three, 1), 3)
		add([]int{1, 1, 1}, false, c17Progs(three[:5], 1), 4)
		add([]int{2, 2, 2}, false, c17Progs(three[:5], 1), 5)
	}
	return scs
}

type c17Replay struct {
	Scenario string `json:"scenario"`
	Mode     string `json:"mode"`
	Choices  []int  `json:"choices"`
}

func TestVerifC17(t *testing.T) {
	rec := ev.New()
	defer rec.Flush(t)
	rec.Rule("scenario = queue limits × multiset of caller programs over {Acquire, TryAcquire, AcquireMulti(subset,order), Acquire+cancel} × priority function; " +
		"per scenario every interleaving at mutex acquisitions is executed on the real pqueue: (a) stateless DFS with a pre-emption bound, (b) unbounded search with pruning on a canonical state key. " +
		"distinct_nontrivial = distinct (scenario, observed result+admission trace) pairs from executions with at least one non-default scheduling decision")
	rec.Assume("code between two mutex acquisitions is atomic w.r.t. other goroutines (checked separately by the free-running -race step)")
	rec.Assume("state key (queue active/queued lists, holder counts, per-caller results, per-goroutine point and step count, last-run goroutine) determines the future of an execution")
	scs := c17Scenarios(rec.Thorough())
	// goroutines = callers + one canceller per cancellable Acquire
	ngo := func(sc c17scen) int {
		n := len(sc.progs)
		for _, p := range sc.progs {
			for _, o := range p {
				if o.kind == 'C' {
					n++
				}
			}
		}
		return n
	}
	nmulti := func(sc c17scen) int {
		n := 0
		for _, p := range sc.progs {
			for _, o := range p {
				if o.kind == 'M' {
					n++
				}
			}
		}
		return n
	}
	maxGo := 4
	if rec.Thorough() {
		maxGo = 6
	}
	{
		var keep []c17scen
		for _, sc := range scs {
			if ngo(sc) <= maxGo {
				keep = append(keep, sc)
			}
		}
		scs = keep
		// largest first so that the round-robin shard assignment balances
		sort.SliceStable(scs, func(i, j int) bool { return ngo(scs[i]) > ngo(scs[j]) })
	}
	maxGoStateful := 3
	if rec.Thorough() {
		maxGoStateful = 4
	}
	rec.Info("max_goroutines_per_scenario", maxGo)
	rec.Info("max_goroutines_stateful", maxGoStateful)
	bound := 2
	if rec.Thorough() {
		bound = 3
	}
	rec.Info("preemption_bound_stateless", bound)
	rec.Info("scenarios_total", len(scs))
	byName := map[string]c17scen{}
	for _, sc := range scs {
		byName[sc.String()] = sc
	}
	mkCfg := func(stateful bool) qsched.Config {
		cfg := qsched.Config{Mode: qsched.Preemption, Horizon: 200, FairTail: 4000}
		if stateful {
			cfg.StateKey = func(*qsched.Sched) string { return "" }
		}
		return cfg
	}
	if rd := rec.ReplayData(); rd != nil {
		var rp c17Replay
		if err := json.Unmarshal(rd, &rp); err != nil {
			rec.HarnessError("replay: %v", err)
			return
		}
		sc, ok := byName[rp.Scenario]
		if !ok {
			for _, s2 := range c17Scenarios(true) {
				if s2.String() == rp.Scenario {
					sc, ok = s2, true
				}
			}
		}
		if !ok {
			rec.HarnessError("replay: unknown scenario %q", rp.Scenario)
			return
		}
		c := explore.NewCtx(rp.Choices)
		cfg := mkCfg(false)
		cfg.Trace = true
		r := c17Exec(t, c, sc, cfg)
		rec.Eval(1)
		fmt.Printf("replay %s choices=%v\n%s\noutcome=%s violation=%q\n", rp.Scenario, rp.Choices, strings.Join(c.Log(), "\n"), r.Outcome, r.Violation)
		if r.Violation != "" {
			rec.Violation(r.VKey+" "+rp.Scenario, r.Violation, rp)
		}
		return
	}
	var maxPoints int
	only := os.Getenv("VERIF_C17_ONLY")
	for si, sc := range scs {
		if only != "" {
			if !strings.Contains(sc.String(), only) {
				continue
			}
		} else if !rec.Mine(si) {
			continue
		}
		if rec.Expired() {
			rec.NotExhaustive(fmt.Sprintf("wall-clock budget reached in shard %d at scenario %d of %d", rec.ShardI, si, len(scs)))
			break
		}
		for _, stateful := range []bool{false, true} {
			if stateful && (ngo(sc) > maxGoStateful || (!rec.Thorough() && (len(sc.maxes) > 2 || nmulti(sc) > 1))) {
				continue
			}
			mode := "stateless"
			if stateful {
				mode = "stateful"
			}
			cfg := mkCfg(stateful)
			if !stateful && ngo(sc) >= 4 {
				// with four or more goroutines the free context switches of pre-emption bounding
				// multiply through AcquireMulti's retry loops; bound every departure from the
				// default run-to-block scheduler instead (delay bounding)
				cfg.Mode = qsched.Delay
				mode = "stateless-delay"
			}
			ex := &explore.Explorer{Bound: bound, Stateful: stateful, DetCheckEvery: 997,
				Stop: rec.Expired,
				Run:  func(c *explore.Ctx) explore.Result { return c17Exec(t, c, sc, cfg) }}
			if stateful {
				ex.Bound = 1000
			}
			ex.OnExec = func(c *explore.Ctx, r explore.Result) {
				if r.Violation != "" {
					// confirm determinism of the failing schedule before believing it
					for i := 0; i < 5; i++ {
						c2 := explore.NewCtx(c.Choices())
						r2 := c17Exec(t, c2, sc, mkCfg(false))
						if r2.Violation == "" || r2.VKey != r.VKey {
							rec.HarnessError("violation %q of %s not reproduced on replay %d (got %q)", r.VKey, sc, i, r2.Violation)
							return
						}
					}
					rec.Violation(r.VKey+" "+sc.String(), r.Violation+"\nschedule: "+c.Describe(),
						c17Replay{Scenario: sc.String(), Mode: mode, Choices: explore.Trim(c.Choices())})
				}
				if c.Cost > 0 || len(c.Points) > 0 {
					rec.Distinct(sc.String() + "#" + r.Outcome)
				}
			}
			func() {
				defer func() {
					if r := recover(); r != nil {
						rec.HarnessError("scenario %s (%s): %v", sc, mode, r)
					}
				}()
				ex.Explore()
			}()
			if only != "" {
				fmt.Printf("%s %s: exec=%d states=%d trans=%d pruned=%d maxpoints=%d outcomes=%d capped=%v\n", sc, mode, ex.Stats.Executions, ex.Stats.States, ex.Stats.Transitions, ex.Stats.Pruned, ex.Stats.MaxPoints, len(ex.Stats.Outcomes), ex.Stats.Capped)
			}
			rec.Eval(ex.Stats.Executions)
			rec.Count(mode+".executions", ex.Stats.Executions)
			rec.Count(mode+".choice_points", ex.Stats.Branching)
			rec.Count(mode+".deviating_executions", ex.Stats.Deviating)
			rec.Count(mode+".distinct_outcomes", int64(len(ex.Stats.Outcomes)))
			if stateful {
				rec.States(ex.Stats.States)
				rec.Transitions(ex.Stats.Transitions)
				rec.Count("stateful.pruned", ex.Stats.Pruned)
			}
			if ex.Stats.MaxPoints > maxPoints {
				maxPoints = ex.Stats.MaxPoints
			}
			if ex.Stats.Capped {
				rec.NotExhaustive(fmt.Sprintf("budget reached inside scenario %s (%s)", sc, mode))
			}
			for o := range ex.Stats.Outcomes {
				if strings.HasPrefix(o, "H ") {
					rec.Count("horizon_executions", 1)
				}
			}
			if si%97 == 0 && !stateful {
				rec.Sample(map[string]any{"scenario": sc.String(), "mode": mode, "executions": ex.Stats.Executions, "distinct_outcomes": len(ex.Stats.Outcomes)})
			}
		}
		rec.Count("scenarios", 1)
	}
	rec.Info(fmt.Sprintf("max_choice_points_in_one_execution_shard%d", rec.ShardI), maxPoints)
	// every execution that reached the oracle ran to completion, so for every state visited by the
	// stateful search a completed continuation exists (AG EF done); the model the search explores is
	// the implementation itself, so every explored trace is an implementation trace.
	rec.Validated(0)
}
