// Package modelreg is a small, deterministic, in-memory model of an OCI distribution registry
// served through an http.RoundTripper (no sockets, no goroutines, no wall clock, no randomness).
//
// It is the *environment* of the code under test and a *recorder*: every request is logged, the raw
// store is open to oracles, feature switches select which optional parts of the distribution spec a
// host implements, and two callbacks give an explorer control: OnArrive (a scheduling point) and
// Decide (an environment answer other than the conforming one).
//
// It imports nothing from regclient.
package modelreg

import (
	"crypto/sha256"
	"crypto/sha512"
	"encoding/hex"
	"encoding/json"
	"fmt"
	"io"
	"net/http"
	"net/url"
	"sort"
	"strconv"
	"strings"
	"sync"
	"time"
)

type Features struct {
	TagDelete      bool // DELETE /manifests/<tag>
	ManifestDelete bool // DELETE /manifests/<digest>
	BlobDelete     bool
	Referrers      bool // referrers API
	ReferrersPage  int  // page size of the referrers API (0 = one page)
	ReferrersFilt  bool // server-side artifactType filtering
	OCISubject     bool // acknowledge the subject of a pushed manifest with the OCI-Subject header
	// Mount: "grant" (201 when the source repo holds the blob), "refuse" (202 + upload location),
	// "unsupported" (202 + location, ignoring mount/from entirely – same wire behaviour as refuse)
	Mount        string
	AnonMount    bool // mount without "from" succeeds when any repository of the host holds the blob
	NoHeadDigest bool // omit Docker-Content-Digest on manifest HEAD/GET
	ChunkMin     int  // OCI-Chunk-Min-Length announced on upload start (0 = none)
	// EmptyRange: how a session that holds no byte yet states its range: "" = "0-0" (as distribution
	// does, indistinguishable from one byte), "minus1" = "0--1" (end = size-1, as olareg does)
	EmptyRange string
	Location     string // "" relative, "abs" absolute URL, "query" relative with a query string
	ValidateRefs bool // manifest PUT rejects references to content the repository lacks
	TagPage      int  // page size of tags/list when the client does not ask for one (0 = all)
	DeleteDisabled405 bool // answer 405 (not 404/400) for unsupported deletes
	CatalogPage       int  // page size of _catalog when the client does not ask for one (0 = all)
	// LinkStyle: how the next page of a listing is announced. "" one Link header; "split" a first Link
	// line with an unrelated relation (as a proxy adds resource hints) and the next link in a second
	// line; "combined" both relations comma separated in one line (RFC 8288 treats all three alike)
	LinkStyle string
}

const hintLink = `<https://cdn.example/>; rel="preconnect"`

// setNext announces the next page in the host's Link style.
func (h *Host) setNext(a *Answer, next string) {
	switch h.Feat.LinkStyle {
	case "split":
		a.Header.Add("Link", hintLink)
		a.Header.Add("Link", next)
	case "combined":
		a.Header.Set("Link", hintLink+", "+next)
	default:
		a.Header.Set("Link", next)
	}
}

// Full is a registry implementing everything.
func Full() Features {
	return Features{TagDelete: true, ManifestDelete: true, BlobDelete: true, Referrers: true, OCISubject: true, Mount: "grant", ValidateRefs: true}
}

type Manifest struct {
	Body      []byte
	MediaType string
}

type Upload struct {
	ID     string
	Data   []byte
	Algo   string
	Closed bool
	Short  bool // a chunk shorter than the announced minimum was received: it must have been the last
}

type Repo struct {
	Blobs     map[string][]byte
	Manifests map[string]*Manifest
	Tags      map[string]string
	Uploads   map[string]*Upload
}

func newRepo() *Repo {
	return &Repo{Blobs: map[string][]byte{}, Manifests: map[string]*Manifest{}, Tags: map[string]string{}, Uploads: map[string]*Upload{}}
}

type Host struct {
	Name       string
	Feat       Features
	Repos      map[string]*Repo
	Static     map[string][]byte // arbitrary paths outside /v2/ (external layer URLs, CDN targets)
	nextUpload int
}

func (h *Host) Repo(name string) *Repo {
	r := h.Repos[name]
	if r == nil {
		r = newRepo()
		h.Repos[name] = r
	}
	return r
}

// Entry is one request and the answer given.
type Entry struct {
	Seq     int
	At      time.Duration // virtual time since the net was created
	Method  string
	Scheme  string
	Host    string
	Path    string
	Query   url.Values
	Header  http.Header
	Body    []byte
	Status  int    // 0 = transport error
	Note    string // e.g. fault tag
	Kind    string // manifest-get, blob-put-patch, ...
	Repo    string
	Ref     string // tag, digest or upload id
	RespHdr http.Header
}

func (e *Entry) String() string {
	q := ""
	if len(e.Query) > 0 {
		q = "?" + e.Query.Encode()
	}
	n := ""
	if e.Note != "" {
		n = " [" + e.Note + "]"
	}
	return fmt.Sprintf("%s %s%s%s -> %d%s", e.Method, e.Host, e.Path, q, e.Status, n)
}

func (e *Entry) Mutating() bool { return e.Method != "GET" && e.Method != "HEAD" }

// Answer is a non-default answer chosen by Decide.
type Answer struct {
	Status int
	Header http.Header
	Body   []byte
	Err    error         // transport error instead of a response
	BodyRC io.ReadCloser // custom body (overrides Body)
	Note   string
	// Apply: perform the default handling first (state changes happen) and then replace the response
	// by this answer (models "server committed, reply lost").
	Apply bool
}

type Net struct {
	mu    sync.Mutex
	Hosts map[string]*Host
	Log   []*Entry
	start time.Time
	// OnArrive is called when a request arrives, before anything else (scheduler point).
	OnArrive func(e *Entry)
	// Decide may return a non-default answer for the request.
	Decide func(e *Entry) *Answer
	// OnDone is called after the default handling (state already changed).
	OnDone func(e *Entry)
	// OnReturn is called when RoundTrip returns for a request that had arrived (every path: answer,
	// transport error, cancelled context); together with OnArrive it brackets "request in flight".
	OnReturn func(e *Entry)
}

func NewNet() *Net { return &Net{Hosts: map[string]*Host{}, start: time.Now()} }

func (n *Net) AddHost(name string, f Features) *Host {
	h := &Host{Name: name, Feat: f, Repos: map[string]*Repo{}}
	n.Hosts[name] = h
	return h
}

func Digest(algo string, b []byte) string {
	switch algo {
	case "sha512":
		s := sha512.Sum512(b)
		return "sha512:" + hex.EncodeToString(s[:])
	default:
		s := sha256.Sum256(b)
		return "sha256:" + hex.EncodeToString(s[:])
	}
}

func algoOf(dig string) string {
	if i := strings.IndexByte(dig, ':'); i > 0 {
		return dig[:i]
	}
	return "sha256"
}

func validDigest(d string) bool {
	i := strings.IndexByte(d, ':')
	if i <= 0 {
		return false
	}
	hexp := d[i+1:]
	switch d[:i] {
	case "sha256":
		if len(hexp) != 64 {
			return false
		}
	case "sha512":
		if len(hexp) != 128 {
			return false
		}
	default:
		return false
	}
	for _, c := range hexp {
		if !(c >= '0' && c <= '9' || c >= 'a' && c <= 'f') {
			return false
		}
	}
	return true
}

// Desc is the subset of an OCI descriptor the model needs.
type Desc struct {
	MediaType    string            `json:"mediaType,omitempty"`
	Digest       string            `json:"digest,omitempty"`
	Size         int64             `json:"size"`
	URLs         []string          `json:"urls,omitempty"`
	Annotations  map[string]string `json:"annotations,omitempty"`
	ArtifactType string            `json:"artifactType,omitempty"`
	Data         []byte            `json:"data,omitempty"`
}

// ManDoc is the subset of manifest/index JSON the model and the audits understand.
type ManDoc struct {
	SchemaVersion int               `json:"schemaVersion"`
	MediaType     string            `json:"mediaType,omitempty"`
	ArtifactType  string            `json:"artifactType,omitempty"`
	Config        *Desc             `json:"config,omitempty"`
	Layers        []Desc            `json:"layers,omitempty"`
	Manifests     []Desc            `json:"manifests,omitempty"`
	Blobs         []Desc            `json:"blobs,omitempty"`
	Subject       *Desc             `json:"subject,omitempty"`
	Annotations   map[string]string `json:"annotations,omitempty"`
	FSLayers      []struct {
		BlobSum string `json:"blobSum"`
	} `json:"fsLayers,omitempty"`
}

func errBody(code, msg string) []byte {
	b, _ := json.Marshal(map[string]any{"errors": []map[string]string{{"code": code, "message": msg}}})
	return b
}

func (n *Net) RoundTrip(req *http.Request) (*http.Response, error) {
	var body []byte
	if req.Body != nil {
		var err error
		body, err = io.ReadAll(req.Body)
		req.Body.Close()
		if err != nil {
			return nil, err
		}
	}
	var clErr error
	if req.ContentLength > 0 && int64(len(body)) != req.ContentLength {
		// net/http's transfer writer: a body shorter than the declared Content-Length never becomes
		// a complete request; of a longer one exactly Content-Length bytes reach the server, which
		// processes them, while the client gets an error
		clErr = fmt.Errorf("http: ContentLength=%d with Body length %d", req.ContentLength, len(body))
		if int64(len(body)) < req.ContentLength {
			return nil, clErr
		}
		body = body[:req.ContentLength]
	}
	e := &Entry{Method: req.Method, Scheme: req.URL.Scheme, Host: req.URL.Host, Path: req.URL.Path, Query: req.URL.Query(), Header: req.Header.Clone(), Body: body}
	n.classify(e)
	if n.OnReturn != nil {
		defer n.OnReturn(e)
	}
	if n.OnArrive != nil {
		n.OnArrive(e)
	}
	n.mu.Lock()
	e.Seq = len(n.Log)
	e.At = time.Since(n.start)
	n.Log = append(n.Log, e)
	n.mu.Unlock()
	if err := req.Context().Err(); err != nil {
		e.Note = "ctx-done"
		return nil, err
	}
	var ans *Answer
	if n.Decide != nil {
		ans = n.Decide(e)
	}
	if ans != nil && !ans.Apply {
		return n.finish(req, e, ans)
	}
	n.mu.Lock()
	def := n.handle(e)
	n.mu.Unlock()
	if n.OnDone != nil {
		n.OnDone(e)
	}
	if clErr != nil {
		e.Status = def.Status
		e.Note = "content-length-mismatch"
		return nil, clErr
	}
	if ans != nil {
		return n.finish(req, e, ans)
	}
	return n.finish(req, e, def)
}

func (n *Net) finish(req *http.Request, e *Entry, a *Answer) (*http.Response, error) {
	e.Note = a.Note
	if a.Err != nil {
		e.Status = 0
		return nil, a.Err
	}
	e.Status = a.Status
	h := a.Header
	if h == nil {
		h = http.Header{}
	}
	e.RespHdr = h
	resp := &http.Response{
		StatusCode: a.Status, Status: fmt.Sprintf("%d %s", a.Status, http.StatusText(a.Status)),
		Proto: "HTTP/1.1", ProtoMajor: 1, ProtoMinor: 1,
		Header: h, Request: req,
	}
	if a.BodyRC != nil {
		resp.Body = a.BodyRC
		resp.ContentLength = -1
		if cl := h.Get("Content-Length"); cl != "" {
			if v, err := strconv.ParseInt(cl, 10, 64); err == nil {
				resp.ContentLength = v
			}
		}
		return resp, nil
	}
	b := a.Body
	if req.Method == "HEAD" {
		resp.Body = http.NoBody
		if cl := h.Get("Content-Length"); cl != "" {
			if v, err := strconv.ParseInt(cl, 10, 64); err == nil {
				resp.ContentLength = v
			}
		}
		return resp, nil
	}
	if h.Get("Content-Length") == "" {
		h.Set("Content-Length", strconv.Itoa(len(b)))
	}
	resp.ContentLength = int64(len(b))
	if cl, err := strconv.ParseInt(h.Get("Content-Length"), 10, 64); err == nil {
		resp.ContentLength = cl
	}
	resp.Body = &eofWithData{b: b}
	return resp, nil
}

// eofWithData delivers a body the way net/http does for a response of known length: the read that
// returns the last bytes also returns io.EOF, so a consumer that stops at the first EOF (io.Copy,
// io.ReadAll) never makes a further call.
type eofWithData struct {
	b   []byte
	pos int
}

func (r *eofWithData) Read(p []byte) (int, error) {
	if r.pos >= len(r.b) {
		return 0, io.EOF
	}
	n := copy(p, r.b[r.pos:])
	r.pos += n
	if r.pos >= len(r.b) {
		return n, io.EOF
	}
	return n, nil
}

func (r *eofWithData) Close() error { return nil }

// classify fills Kind, Repo and Ref from the URL.
func (n *Net) classify(e *Entry) {
	p := e.Path
	if p == "/v2/" || p == "/v2" {
		e.Kind = "ping"
		return
	}
	if p == "/v2/_catalog" {
		e.Kind = "catalog"
		return
	}
	if !strings.HasPrefix(p, "/v2/") {
		e.Kind = "other"
		return
	}
	p = strings.TrimPrefix(p, "/v2/")
	m := strings.ToLower(e.Method)
	for _, sep := range []string{"/manifests/", "/blobs/uploads/", "/blobs/", "/tags/list", "/referrers/"} {
		i := strings.LastIndex(p, sep)
		if i < 0 {
			continue
		}
		e.Repo = p[:i]
		e.Ref = p[i+len(sep):]
		switch sep {
		case "/manifests/":
			e.Kind = "manifest-" + m
		case "/blobs/uploads/":
			e.Kind = "upload-" + m
		case "/blobs/":
			e.Kind = "blob-" + m
		case "/tags/list":
			e.Kind = "tags"
		case "/referrers/":
			e.Kind = "referrers"
		}
		return
	}
	if strings.HasSuffix(p, "/blobs/uploads") {
		e.Repo = strings.TrimSuffix(p, "/blobs/uploads")
		e.Kind = "upload-" + m
		return
	}
	e.Kind = "other"
}

func st(code int, errCode string) *Answer {
	a := &Answer{Status: code, Header: http.Header{}}
	if errCode != "" {
		a.Body = errBody(errCode, errCode)
		a.Header.Set("Content-Type", "application/json")
	}
	return a
}

func (n *Net) handle(e *Entry) *Answer {
	h := n.Hosts[e.Host]
	if h == nil {
		return &Answer{Err: fmt.Errorf("modelreg: dial tcp: lookup %s: no such host", e.Host)}
	}
	switch {
	case e.Kind == "ping":
		return st(200, "")
	case e.Kind == "catalog":
		var names []string
		for r := range h.Repos {
			names = append(names, r)
		}
		sort.Strings(names)
		if last := e.Query.Get("last"); last != "" {
			i := sort.SearchStrings(names, last)
			if i < len(names) && names[i] == last {
				i++
			}
			names = names[i:]
		}
		page := h.Feat.CatalogPage
		if ns := e.Query.Get("n"); ns != "" {
			if v, err := strconv.Atoi(ns); err == nil && v >= 0 && (page == 0 || v < page) {
				page = v
			}
		}
		a := st(200, "")
		if page > 0 && len(names) > page {
			names = names[:page]
			q := url.Values{}
			q.Set("last", names[len(names)-1])
			q.Set("n", strconv.Itoa(page))
			h.setNext(a, fmt.Sprintf("</v2/_catalog?%s>; rel=\"next\"", q.Encode()))
		}
		if names == nil {
			names = []string{}
		}
		b, _ := json.Marshal(map[string]any{"repositories": names})
		a.Body = b
		a.Header.Set("Content-Type", "application/json")
		return a
	case strings.HasPrefix(e.Kind, "manifest-"):
		return h.manifest(e)
	case strings.HasPrefix(e.Kind, "blob-"):
		return h.blob(e)
	case strings.HasPrefix(e.Kind, "upload-"):
		return h.upload(e)
	case e.Kind == "tags":
		return h.tags(e)
	case e.Kind == "referrers":
		return h.referrers(e)
	}
	if b, ok := h.Static[e.Path]; ok && (e.Method == "GET" || e.Method == "HEAD") {
		a := st(200, "")
		a.Header.Set("Content-Type", "application/octet-stream")
		a.Header.Set("Content-Length", strconv.Itoa(len(b)))
		a.Body = b
		return a
	}
	return st(404, "NOT_FOUND")
}

func (h *Host) resolve(r *Repo, ref string) (string, *Manifest) {
	dig := ref
	if !strings.Contains(ref, ":") {
		d, ok := r.Tags[ref]
		if !ok {
			return "", nil
		}
		dig = d
	}
	m := r.Manifests[dig]
	if m == nil {
		return "", nil
	}
	return dig, m
}

func (h *Host) manifest(e *Entry) *Answer {
	r := h.Repos[e.Repo]
	switch e.Method {
	case "GET", "HEAD":
		if r == nil {
			return st(404, "NAME_UNKNOWN")
		}
		dig, m := h.resolve(r, e.Ref)
		if m == nil {
			return st(404, "MANIFEST_UNKNOWN")
		}
		a := st(200, "")
		a.Header.Set("Content-Type", m.MediaType)
		a.Header.Set("Content-Length", strconv.Itoa(len(m.Body)))
		if !h.Feat.NoHeadDigest {
			a.Header.Set("Docker-Content-Digest", dig)
		}
		a.Body = m.Body
		return a
	case "PUT":
		r = h.Repo(e.Repo)
		byDigest := strings.Contains(e.Ref, ":")
		algo := "sha256"
		want := ""
		if byDigest {
			if !validDigest(e.Ref) {
				return st(400, "DIGEST_INVALID")
			}
			algo, want = algoOf(e.Ref), e.Ref
		} else if q := e.Query.Get("digest"); q != "" {
			if !validDigest(q) {
				return st(400, "DIGEST_INVALID")
			}
			algo, want = algoOf(q), q
		}
		dig := Digest(algo, e.Body)
		if want != "" && want != dig {
			return st(400, "DIGEST_INVALID")
		}
		var doc ManDoc
		if err := json.Unmarshal(e.Body, &doc); err != nil {
			return st(400, "MANIFEST_INVALID")
		}
		mt := e.Header.Get("Content-Type")
		if doc.MediaType != "" && mt != "" && doc.MediaType != mt {
			return st(400, "MANIFEST_INVALID")
		}
		if mt == "" {
			mt = doc.MediaType
		}
		if h.Feat.ValidateRefs {
			for _, d := range doc.Manifests {
				if _, ok := r.Manifests[d.Digest]; !ok {
					if _, ok := r.Blobs[d.Digest]; !ok { // blob-typed index entries
						return st(400, "MANIFEST_BLOB_UNKNOWN")
					}
				}
			}
			if doc.Config != nil {
				if _, ok := r.Blobs[doc.Config.Digest]; !ok {
					return st(400, "MANIFEST_BLOB_UNKNOWN")
				}
			}
			for _, d := range append(append([]Desc{}, doc.Layers...), doc.Blobs...) {
				if len(d.URLs) > 0 {
					continue
				}
				if _, ok := r.Blobs[d.Digest]; !ok {
					return st(400, "MANIFEST_BLOB_UNKNOWN")
				}
			}
			for _, l := range doc.FSLayers {
				if _, ok := r.Blobs[l.BlobSum]; !ok {
					return st(400, "MANIFEST_BLOB_UNKNOWN")
				}
			}
		}
		r.Manifests[dig] = &Manifest{Body: append([]byte{}, e.Body...), MediaType: mt}
		if !byDigest {
			r.Tags[e.Ref] = dig
		}
		a := st(201, "")
		a.Header.Set("Location", "/v2/"+e.Repo+"/manifests/"+dig)
		a.Header.Set("Docker-Content-Digest", dig)
		if doc.Subject != nil && doc.Subject.Digest != "" && h.Feat.OCISubject && h.Feat.Referrers {
			a.Header.Set("OCI-Subject", doc.Subject.Digest)
		}
		return a
	case "DELETE":
		unsup := 405
		if r == nil {
			return st(404, "NAME_UNKNOWN")
		}
		if !strings.Contains(e.Ref, ":") {
			if !h.Feat.TagDelete {
				if h.Feat.DeleteDisabled405 {
					return st(unsup, "UNSUPPORTED")
				}
				return st(400, "UNSUPPORTED")
			}
			if _, ok := r.Tags[e.Ref]; !ok {
				return st(404, "MANIFEST_UNKNOWN")
			}
			delete(r.Tags, e.Ref)
			return st(202, "")
		}
		if !h.Feat.ManifestDelete {
			return st(unsup, "UNSUPPORTED")
		}
		if _, ok := r.Manifests[e.Ref]; !ok {
			return st(404, "MANIFEST_UNKNOWN")
		}
		delete(r.Manifests, e.Ref)
		for t, d := range r.Tags {
			if d == e.Ref {
				delete(r.Tags, t)
			}
		}
		return st(202, "")
	}
	return st(405, "UNSUPPORTED")
}

func (h *Host) blob(e *Entry) *Answer {
	r := h.Repos[e.Repo]
	switch e.Method {
	case "GET", "HEAD":
		if r == nil {
			return st(404, "NAME_UNKNOWN")
		}
		b, ok := r.Blobs[e.Ref]
		if !ok {
			return st(404, "BLOB_UNKNOWN")
		}
		a := st(200, "")
		a.Header.Set("Content-Type", "application/octet-stream")
		a.Header.Set("Docker-Content-Digest", e.Ref)
		a.Header.Set("Accept-Ranges", "bytes")
		if rg := e.Header.Get("Range"); rg != "" && strings.HasPrefix(rg, "bytes=") {
			sp := strings.SplitN(strings.TrimPrefix(rg, "bytes="), "-", 2)
			start, err := strconv.ParseInt(sp[0], 10, 64)
			endOK := len(sp) == 2 && sp[1] == ""
			if len(sp) == 2 && sp[1] != "" {
				// a last-byte-pos at or beyond the end is clamped (RFC 9110 14.1.2); the model only
				// serves ranges that run to the end of the blob
				if e2, err2 := strconv.ParseInt(sp[1], 10, 64); err2 == nil && e2 >= int64(len(b))-1 {
					endOK = true
				}
			}
			if err == nil && start >= 0 && start <= int64(len(b)) && endOK {
				if start == int64(len(b)) {
					a = st(416, "RANGE_INVALID")
					a.Header.Set("Content-Range", fmt.Sprintf("bytes */%d", len(b)))
					return a
				}
				a.Status = 206
				a.Header.Set("Content-Range", fmt.Sprintf("bytes %d-%d/%d", start, len(b)-1, len(b)))
				a.Body = b[start:]
				a.Header.Set("Content-Length", strconv.Itoa(len(a.Body)))
				return a
			}
		}
		a.Header.Set("Content-Length", strconv.Itoa(len(b)))
		a.Body = b
		return a
	case "DELETE":
		if !h.Feat.BlobDelete {
			return st(405, "UNSUPPORTED")
		}
		if r == nil {
			return st(404, "NAME_UNKNOWN")
		}
		if _, ok := r.Blobs[e.Ref]; !ok {
			return st(404, "BLOB_UNKNOWN")
		}
		delete(r.Blobs, e.Ref)
		return st(202, "")
	}
	return st(405, "UNSUPPORTED")
}

func (h *Host) rangeOf(u *Upload) string {
	if len(u.Data) == 0 && h.Feat.EmptyRange == "minus1" {
		return "0--1"
	}
	return fmt.Sprintf("0-%d", max(len(u.Data)-1, 0))
}

func (h *Host) location(e *Entry, repo, id string) string {
	loc := "/v2/" + repo + "/blobs/uploads/" + id
	switch h.Feat.Location {
	case "abs":
		sch := e.Scheme
		if sch == "" {
			sch = "http"
		}
		return sch + "://" + e.Host + loc
	case "query":
		return loc + "?state=s" + id
	}
	return loc
}

func parseContentRange(s string) (int64, int64, bool) {
	s = strings.TrimPrefix(s, "bytes ")
	sp := strings.SplitN(s, "-", 2)
	if len(sp) != 2 {
		return 0, 0, false
	}
	a, err1 := strconv.ParseInt(sp[0], 10, 64)
	b, err2 := strconv.ParseInt(sp[1], 10, 64)
	return a, b, err1 == nil && err2 == nil
}

func (h *Host) upload(e *Entry) *Answer {
	r := h.Repo(e.Repo)
	switch e.Method {
	case "POST":
		if e.Ref != "" {
			return st(404, "NOT_FOUND")
		}
		if mnt := e.Query.Get("mount"); mnt != "" {
			from := e.Query.Get("from")
			granted := false
			if from != "" && h.Feat.Mount == "grant" {
				if fr := h.Repos[from]; fr != nil {
					if b, ok := fr.Blobs[mnt]; ok {
						r.Blobs[mnt] = b
						granted = true
					}
				}
			} else if from == "" && h.Feat.AnonMount {
				names := make([]string, 0, len(h.Repos))
				for k := range h.Repos {
					names = append(names, k)
				}
				sort.Strings(names)
				for _, k := range names {
					if b, ok := h.Repos[k].Blobs[mnt]; ok {
						r.Blobs[mnt] = b
						granted = true
						break
					}
				}
			}
			if granted {
				a := st(201, "")
				a.Header.Set("Location", "/v2/"+e.Repo+"/blobs/"+mnt)
				a.Header.Set("Docker-Content-Digest", mnt)
				return a
			}
		}
		algo := "sha256"
		if q := e.Query.Get("digest-algorithm"); q != "" {
			algo = q
		}
		// monolithic POST with digest
		if dg := e.Query.Get("digest"); dg != "" && e.Query.Get("mount") == "" {
			if !validDigest(dg) || Digest(algoOf(dg), e.Body) != dg {
				return st(400, "DIGEST_INVALID")
			}
			r.Blobs[dg] = append([]byte{}, e.Body...)
			a := st(201, "")
			a.Header.Set("Location", "/v2/"+e.Repo+"/blobs/"+dg)
			return a
		}
		h.nextUpload++
		id := fmt.Sprintf("u%d", h.nextUpload)
		r.Uploads[id] = &Upload{ID: id, Algo: algo}
		a := st(202, "")
		a.Header.Set("Location", h.location(e, e.Repo, id))
		a.Header.Set("Range", "0-0")
		a.Header.Set("Docker-Upload-UUID", id)
		if h.Feat.ChunkMin > 0 {
			a.Header.Set("OCI-Chunk-Min-Length", strconv.Itoa(h.Feat.ChunkMin))
		}
		return a
	case "PATCH":
		u := r.Uploads[e.Ref]
		if u == nil || u.Closed {
			return st(404, "BLOB_UPLOAD_UNKNOWN")
		}
		if cr := e.Header.Get("Content-Range"); cr != "" {
			start, end, ok := parseContentRange(cr)
			if !ok || start != int64(len(u.Data)) || end-start+1 != int64(len(e.Body)) {
				a := st(416, "RANGE_INVALID")
				a.Header.Set("Location", h.location(e, e.Repo, u.ID))
				a.Header.Set("Range", h.rangeOf(u))
				return a
			}
		}
		if h.Feat.ChunkMin > 0 {
			// a registry that announces a minimum chunk length enforces it: only the last chunk of
			// a session may be shorter, so after a short chunk no further chunk is accepted
			if u.Short {
				a := st(416, "RANGE_INVALID")
				a.Header.Set("Location", h.location(e, e.Repo, u.ID))
				a.Header.Set("Range", h.rangeOf(u))
				return a
			}
			if len(e.Body) < h.Feat.ChunkMin {
				u.Short = true
			}
		}
		u.Data = append(u.Data, e.Body...)
		a := st(202, "")
		a.Header.Set("Location", h.location(e, e.Repo, u.ID))
		a.Header.Set("Range", h.rangeOf(u))
		a.Header.Set("Docker-Upload-UUID", u.ID)
		return a
	case "PUT":
		u := r.Uploads[e.Ref]
		if u == nil || u.Closed {
			return st(404, "BLOB_UPLOAD_UNKNOWN")
		}
		dg := e.Query.Get("digest")
		if !validDigest(dg) {
			return st(400, "DIGEST_INVALID")
		}
		data := append(append([]byte{}, u.Data...), e.Body...)
		if Digest(algoOf(dg), data) != dg {
			return st(400, "DIGEST_INVALID")
		}
		r.Blobs[dg] = data
		u.Closed = true
		delete(r.Uploads, e.Ref)
		a := st(201, "")
		a.Header.Set("Location", "/v2/"+e.Repo+"/blobs/"+dg)
		a.Header.Set("Docker-Content-Digest", dg)
		return a
	case "GET":
		u := r.Uploads[e.Ref]
		if u == nil {
			return st(404, "BLOB_UPLOAD_UNKNOWN")
		}
		a := st(204, "")
		a.Header.Set("Location", h.location(e, e.Repo, u.ID))
		a.Header.Set("Range", h.rangeOf(u))
		a.Header.Set("Docker-Upload-UUID", u.ID)
		return a
	case "DELETE":
		if _, ok := r.Uploads[e.Ref]; !ok {
			return st(404, "BLOB_UPLOAD_UNKNOWN")
		}
		delete(r.Uploads, e.Ref)
		return st(202, "")
	}
	return st(405, "UNSUPPORTED")
}

func (h *Host) tags(e *Entry) *Answer {
	r := h.Repos[e.Repo]
	if r == nil {
		return st(404, "NAME_UNKNOWN")
	}
	var tags []string
	for t := range r.Tags {
		tags = append(tags, t)
	}
	sort.Strings(tags)
	last := e.Query.Get("last")
	if last != "" {
		i := sort.SearchStrings(tags, last)
		if i < len(tags) && tags[i] == last {
			i++
		}
		tags = tags[i:]
	}
	page := h.Feat.TagPage
	if ns := e.Query.Get("n"); ns != "" {
		if v, err := strconv.Atoi(ns); err == nil && v >= 0 && (page == 0 || v < page) {
			page = v
		}
	}
	a := st(200, "")
	if page > 0 && len(tags) > page {
		tags = tags[:page]
		q := url.Values{}
		q.Set("last", tags[len(tags)-1])
		q.Set("n", strconv.Itoa(page))
		h.setNext(a, fmt.Sprintf("</v2/%s/tags/list?%s>; rel=\"next\"", e.Repo, q.Encode()))
	}
	if tags == nil {
		tags = []string{}
	}
	b, _ := json.Marshal(map[string]any{"name": e.Repo, "tags": tags})
	a.Body = b
	a.Header.Set("Content-Type", "application/json")
	return a
}

// Referrers computes the referrers of a digest from the stored manifests (the model's ground truth).
func (r *Repo) Referrers(subject string) []Desc {
	var out []Desc
	var digs []string
	for d := range r.Manifests {
		digs = append(digs, d)
	}
	sort.Strings(digs)
	for _, d := range digs {
		m := r.Manifests[d]
		var doc ManDoc
		if json.Unmarshal(m.Body, &doc) != nil || doc.Subject == nil || doc.Subject.Digest != subject {
			continue
		}
		at := doc.ArtifactType
		if at == "" && doc.Config != nil {
			at = doc.Config.MediaType
		}
		out = append(out, Desc{MediaType: m.MediaType, Digest: d, Size: int64(len(m.Body)), ArtifactType: at, Annotations: doc.Annotations})
	}
	return out
}

func (h *Host) referrers(e *Entry) *Answer {
	if !h.Feat.Referrers {
		return st(404, "NOT_FOUND")
	}
	if !validDigest(e.Ref) {
		return st(400, "DIGEST_INVALID")
	}
	var list []Desc
	if r := h.Repos[e.Repo]; r != nil {
		list = r.Referrers(e.Ref)
	}
	a := st(200, "")
	if at := e.Query.Get("artifactType"); at != "" && h.Feat.ReferrersFilt {
		var f []Desc
		for _, d := range list {
			if d.ArtifactType == at {
				f = append(f, d)
			}
		}
		list = f
		a.Header.Set("OCI-Filters-Applied", "artifactType")
	}
	if h.Feat.ReferrersPage > 0 {
		off := 0
		if o := e.Query.Get("offset"); o != "" {
			off, _ = strconv.Atoi(o)
		}
		if off > len(list) {
			off = len(list)
		}
		end := off + h.Feat.ReferrersPage
		if end < len(list) {
			q := url.Values{}
			for k, v := range e.Query {
				q[k] = v
			}
			q.Set("offset", strconv.Itoa(end))
			h.setNext(a, fmt.Sprintf("</v2/%s/referrers/%s?%s>; rel=\"next\"", e.Repo, e.Ref, q.Encode()))
		} else {
			end = len(list)
		}
		list = list[off:end]
	}
	if list == nil {
		list = []Desc{}
	}
	b, _ := json.Marshal(map[string]any{"schemaVersion": 2, "mediaType": "application/vnd.oci.image.index.v1+json", "manifests": list})
	a.Body = b
	a.Header.Set("Content-Type", "application/vnd.oci.image.index.v1+json")
	return a
}

// Peek computes the default answer to a request WITHOUT changing state: it is only meaningful
// for GET/HEAD requests (used to build truncated-body faults). Call with the store locked (With).
func (n *Net) Peek(e *Entry) *Answer {
	if e.Method != "GET" && e.Method != "HEAD" {
		return nil
	}
	return n.handle(e)
}

// Snapshot returns a canonical string of the whole store (for state keys and before/after diffs).
func (n *Net) Snapshot() string {
	n.mu.Lock()
	defer n.mu.Unlock()
	var sb strings.Builder
	var hs []string
	for k := range n.Hosts {
		hs = append(hs, k)
	}
	sort.Strings(hs)
	for _, hn := range hs {
		h := n.Hosts[hn]
		var rs []string
		for k := range h.Repos {
			rs = append(rs, k)
		}
		sort.Strings(rs)
		for _, rn := range rs {
			r := h.Repos[rn]
			fmt.Fprintf(&sb, "%s/%s{", hn, rn)
			var ks []string
			for k := range r.Blobs {
				ks = append(ks, "b:"+short(k))
			}
			for k := range r.Manifests {
				ks = append(ks, "m:"+short(k))
			}
			for k, v := range r.Tags {
				ks = append(ks, "t:"+k+"="+short(v))
			}
			for k, u := range r.Uploads {
				ks = append(ks, fmt.Sprintf("u:%s=%d", k, len(u.Data)))
			}
			sort.Strings(ks)
			sb.WriteString(strings.Join(ks, ","))
			sb.WriteString("}")
		}
	}
	return sb.String()
}

func short(d string) string {
	if i := strings.IndexByte(d, ':'); i > 0 && len(d) > i+9 {
		return d[:i+9]
	}
	return d
}

// LogLen / LogSince give race-free access to the log.
func (n *Net) LogLen() int { n.mu.Lock(); defer n.mu.Unlock(); return len(n.Log) }

func (n *Net) LogSince(i int) []*Entry {
	n.mu.Lock()
	defer n.mu.Unlock()
	return append([]*Entry{}, n.Log[i:]...)
}

// With runs f with the store locked (for oracles in free-running harnesses).
func (n *Net) With(f func()) { n.mu.Lock(); defer n.mu.Unlock(); f() }
