package modelreg

import (
	"bytes"
	"fmt"
	"io"
	"net/http"
	"net/http/httptest"
	"sync"
)

// ReqLog is one request as seen by a host behind an in-memory transport.
type ReqLog struct {
	Method string
	Host   string
	Path   string
	Query  string
	Status int
	Header http.Header
	Body   []byte // request body (kept for mutating requests)
}

func (r ReqLog) String() string {
	q := ""
	if r.Query != "" {
		q = "?" + r.Query
	}
	return fmt.Sprintf("%s %s%s%s -> %d", r.Method, r.Host, r.Path, q, r.Status)
}

// Mutating reports whether the request can change registry state.
func (r ReqLog) Mutating() bool {
	return r.Method != http.MethodGet && r.Method != http.MethodHead
}

// HandlerRT is an http.RoundTripper that serves requests in memory from http.Handlers selected by
// URL host (no sockets, no goroutines). It is used to put an independent registry implementation
// (olareg) behind regclient for harnesses that do not need fault injection.
type HandlerRT struct {
	mu    sync.Mutex
	Hosts map[string]http.Handler
	log   []ReqLog
	// Before, if set, may answer a request itself (return non-nil response or error).
	Before func(req *http.Request) (*http.Response, error)
}

func NewHandlerRT() *HandlerRT { return &HandlerRT{Hosts: map[string]http.Handler{}} }

func (h *HandlerRT) RoundTrip(req *http.Request) (*http.Response, error) {
	if err := req.Context().Err(); err != nil {
		return nil, err
	}
	var body []byte
	if req.Body != nil {
		var err error
		body, err = io.ReadAll(req.Body)
		req.Body.Close()
		if err != nil {
			return nil, err
		}
	}
	if h.Before != nil {
		r2 := req.Clone(req.Context())
		r2.Body = io.NopCloser(bytes.NewReader(body))
		if resp, err := h.Before(r2); resp != nil || err != nil {
			st := 0
			if resp != nil {
				st = resp.StatusCode
			}
			h.record(req, body, st)
			return resp, err
		}
	}
	hd, ok := h.Hosts[req.URL.Host]
	if !ok {
		h.record(req, body, 0)
		return nil, fmt.Errorf("modelreg: dial %s: no such host", req.URL.Host)
	}
	r2 := req.Clone(req.Context())
	r2.Body = io.NopCloser(bytes.NewReader(body))
	r2.ContentLength = int64(len(body))
	r2.RequestURI = req.URL.RequestURI()
	r2.Host = req.URL.Host
	r2.RemoteAddr = "192.0.2.1:1234"
	rec := httptest.NewRecorder()
	hd.ServeHTTP(rec, r2)
	resp := rec.Result()
	resp.Request = req
	if req.Method == http.MethodHead {
		resp.Body = http.NoBody
	}
	h.record(req, body, resp.StatusCode)
	return resp, nil
}

func (h *HandlerRT) record(req *http.Request, body []byte, status int) {
	h.mu.Lock()
	defer h.mu.Unlock()
	l := ReqLog{Method: req.Method, Host: req.URL.Host, Path: req.URL.Path, Query: req.URL.RawQuery, Status: status, Header: req.Header.Clone()}
	if l.Mutating() {
		l.Body = body
	}
	h.log = append(h.log, l)
}

// Log returns a copy of the request log.
func (h *HandlerRT) Log() []ReqLog {
	h.mu.Lock()
	defer h.mu.Unlock()
	return append([]ReqLog{}, h.log...)
}

func (h *HandlerRT) ResetLog() {
	h.mu.Lock()
	h.log = nil
	h.mu.Unlock()
}
