// Package vos stands in for "os" in regclient's OCI-layout scheme when a harness is built through
// the verification overlay (steps marked shim). Every function is the os function of the same name,
// preceded by a scheduling point of the controlled scheduler when one is installed AND the harness
// asked for file-system points (qsched.Config.FS); otherwise it is the os function and nothing else.
// The layout code synchronises its read-modify-write of index.json with one mutex; a window between
// two file operations that the mutex no longer covers contains no lock acquisition, so only points
// at the file operations themselves let the explorer put another goroutine into it.
package os

import (
	"io/fs"
	realos "os"

	"github.com/regclient/regclient/internal/verif/vsync"
)

type (
	File     = realos.File
	FileInfo = fs.FileInfo
	FileMode = fs.FileMode
	DirEntry = fs.DirEntry
)

var (
	ErrNotExist = realos.ErrNotExist
	ErrExist    = realos.ErrExist
)

func Create(name string) (*File, error) { vsync.FSPoint("create"); return realos.Create(name) }
func CreateTemp(dir, pattern string) (*File, error) {
	vsync.FSPoint("createtemp")
	return realos.CreateTemp(dir, pattern)
}
func MkdirAll(path string, perm FileMode) error { vsync.FSPoint("mkdir"); return realos.MkdirAll(path, perm) }
func Open(name string) (*File, error)           { vsync.FSPoint("open"); return realos.Open(name) }
func OpenFile(name string, flag int, perm FileMode) (*File, error) {
	vsync.FSPoint("openfile")
	return realos.OpenFile(name, flag, perm)
}
func ReadDir(name string) ([]DirEntry, error) { vsync.FSPoint("readdir"); return realos.ReadDir(name) }
func ReadFile(name string) ([]byte, error)   { vsync.FSPoint("readfile"); return realos.ReadFile(name) }
func WriteFile(name string, data []byte, perm FileMode) error {
	vsync.FSPoint("writefile")
	return realos.WriteFile(name, data, perm)
}
func Remove(name string) error             { vsync.FSPoint("remove"); return realos.Remove(name) }
func RemoveAll(name string) error          { vsync.FSPoint("removeall"); return realos.RemoveAll(name) }
func Rename(oldpath, newpath string) error { vsync.FSPoint("rename"); return realos.Rename(oldpath, newpath) }
func Stat(name string) (FileInfo, error)   { vsync.FSPoint("stat"); return realos.Stat(name) }
func Lstat(name string) (FileInfo, error)  { vsync.FSPoint("lstat"); return realos.Lstat(name) }
func IsNotExist(err error) bool            { return realos.IsNotExist(err) }
func IsExist(err error) bool               { return realos.IsExist(err) }

const (
	O_RDONLY = realos.O_RDONLY
	O_WRONLY = realos.O_WRONLY
	O_RDWR   = realos.O_RDWR
	O_APPEND = realos.O_APPEND
	O_CREATE = realos.O_CREATE
	O_EXCL   = realos.O_EXCL
	O_TRUNC  = realos.O_TRUNC
)
