// Command layoutdrv is the traced driver of the C07 crash-point check: it executes a list of layout
// operations and appends "ACK <i>" to the acknowledgement file after each one has returned.
package main

import (
	"context"
	"flag"
	"fmt"
	"os"
	"strings"

	"github.com/regclient/regclient/internal/verif/layoutops"
)

func main() {
	dir := flag.String("dir", "", "layout directory")
	ack := flag.String("ack", "", "acknowledgement file")
	ops := flag.String("ops", "", "operations separated by ';'")
	flag.Parse()
	e := layoutops.New(*dir)
	ctx := context.Background()
	for i, op := range strings.Split(*ops, ";") {
		if op == "" {
			continue
		}
		if err := e.Do(ctx, op); err != nil {
			fmt.Fprintf(os.Stderr, "op %d %s: %v\n", i, op, err)
			os.Exit(1)
		}
		if *ack != "" {
			fh, err := os.OpenFile(*ack, os.O_APPEND|os.O_CREATE|os.O_WRONLY, 0o644)
			if err == nil {
				fmt.Fprintf(fh, "ACK %d\n", i)
				fh.Close()
			}
		}
	}
}
