// Package rcenv builds a regclient.RegClient whose registry transport is a modelreg.Net.
package rcenv

import (
	"io"
	"log/slog"
	"net/http"
	"time"

	"github.com/regclient/regclient"
	"github.com/regclient/regclient/config"
	"github.com/regclient/regclient/scheme/reg"
)

type Opts struct {
	RetryLimit int
	DelayInit  time.Duration
	DelayMax   time.Duration
	Extra      []regclient.Opt
	RegOpts    []reg.Opts
	Hosts      []config.Host // overrides the default host entries
	Slog       *slog.Logger
}

// New returns a client that reaches the named hosts over plain "http" through rt.
func New(rt http.RoundTripper, hosts []string, o Opts) *regclient.RegClient {
	var hc []config.Host
	if o.Hosts != nil {
		hc = o.Hosts
	} else {
		for _, h := range hosts {
			hc = append(hc, config.Host{Name: h, Hostname: h, TLS: config.TLSDisabled})
		}
	}
	if o.DelayInit == 0 {
		o.DelayInit = time.Millisecond
	}
	if o.DelayMax == 0 {
		o.DelayMax = 4 * time.Millisecond
	}
	lg := o.Slog
	if lg == nil {
		lg = slog.New(slog.NewTextHandler(io.Discard, nil))
	}
	ro := []reg.Opts{reg.WithHTTPClient(&http.Client{Transport: rt}), reg.WithDelay(o.DelayInit, o.DelayMax)}
	if o.RetryLimit > 0 {
		ro = append(ro, reg.WithRetryLimit(o.RetryLimit))
	}
	ro = append(ro, o.RegOpts...)
	opts := []regclient.Opt{regclient.WithConfigHost(hc...), regclient.WithSlog(lg), regclient.WithRegOpts(ro...)}
	opts = append(opts, o.Extra...)
	return regclient.New(opts...)
}
