// Package graphs builds the image-graph alphabet used by the copy/export/GC checks from tiny blobs,
// with its own JSON encoding (nothing from regclient), and loads a graph into a model registry
// repository or an OCI layout directory.
package graphs

import (
	"encoding/json"
	"fmt"
	"os"
	"path/filepath"
	"sort"
	"strings"

	"github.com/regclient/regclient/internal/verif/modelreg"
)

const (
	MTOCIManifest   = "application/vnd.oci.image.manifest.v1+json"
	MTOCIIndex      = "application/vnd.oci.image.index.v1+json"
	MTOCIConfig     = "application/vnd.oci.image.config.v1+json"
	MTOCILayer      = "application/vnd.oci.image.layer.v1.tar"
	MTOCILayerGzip  = "application/vnd.oci.image.layer.v1.tar+gzip"
	MTOCIEmpty      = "application/vnd.oci.empty.v1+json"
	MTDocker1       = "application/vnd.docker.distribution.manifest.v1+json"
	MTOCIArtifact   = "application/vnd.oci.artifact.manifest.v1+json"
	MTDockerMan     = "application/vnd.docker.distribution.manifest.v2+json"
	MTDockerList    = "application/vnd.docker.distribution.manifest.list.v2+json"
	MTDockerConfig  = "application/vnd.docker.container.image.v1+json"
	MTDockerLayerGz = "application/vnd.docker.image.rootfs.diff.tar.gzip"
	MTDockerForeign = "application/vnd.docker.image.rootfs.foreign.diff.tar.gzip"
)

type Graph struct {
	Name      string
	Algo      string
	Blobs     map[string][]byte
	Manifests map[string]*modelreg.Manifest
	Order     []string          // manifests in children-first order
	Top       string            // digest of the top-level manifest
	Tags      map[string]string // extra tags that belong to the graph (digest tags, fallback referrer tags)
	Referrers []string          // digests of referrer manifests (not reachable from Top)
	External  map[string]bool   // blob digests that are foreign (have urls) and are not hosted
}

func New(name, algo string) *Graph {
	if algo == "" {
		algo = "sha256"
	}
	return &Graph{Name: name, Algo: algo, Blobs: map[string][]byte{}, Manifests: map[string]*modelreg.Manifest{}, Tags: map[string]string{}, External: map[string]bool{}}
}

func (g *Graph) Blob(mt string, content string) modelreg.Desc {
	b := []byte(content)
	d := modelreg.Digest(g.Algo, b)
	g.Blobs[d] = b
	return modelreg.Desc{MediaType: mt, Digest: d, Size: int64(len(b))}
}

// ExternalHost is the authority of the URLs that foreign layers carry (a harness may build a graph
// variant with another one by setting it around Build).
var ExternalHost = "external.example"

// Foreign returns a descriptor of a layer that is not hosted (urls set).
func (g *Graph) Foreign(content string) modelreg.Desc {
	b := []byte(content)
	d := modelreg.Digest(g.Algo, b)
	g.External[d] = true
	return modelreg.Desc{MediaType: MTDockerForeign, Digest: d, Size: int64(len(b)), URLs: []string{"http://" + ExternalHost + "/" + d}}
}

func (g *Graph) addManifest(mt string, doc any) modelreg.Desc {
	b, err := json.Marshal(doc)
	if err != nil {
		panic(err)
	}
	d := modelreg.Digest(g.Algo, b)
	if _, ok := g.Manifests[d]; !ok {
		g.Manifests[d] = &modelreg.Manifest{Body: b, MediaType: mt}
		g.Order = append(g.Order, d)
	}
	return modelreg.Desc{MediaType: mt, Digest: d, Size: int64(len(b))}
}

type imgOpt struct {
	docker  bool
	subject *modelreg.Desc
	atype   string
	annot   map[string]string
}

// Image adds an image manifest (OCI unless docker) with the given config and layers.
func (g *Graph) Image(docker bool, config modelreg.Desc, layers []modelreg.Desc, subject *modelreg.Desc, atype string, annot map[string]string) modelreg.Desc {
	mt := MTOCIManifest
	if docker {
		mt = MTDockerMan
	}
	doc := map[string]any{"schemaVersion": 2, "mediaType": mt, "config": config, "layers": layers}
	if subject != nil {
		doc["subject"] = subject
	}
	if atype != "" {
		doc["artifactType"] = atype
	}
	if annot != nil {
		doc["annotations"] = annot
	}
	return g.addManifest(mt, doc)
}

func (g *Graph) Index(docker bool, entries []modelreg.Desc, subject *modelreg.Desc, annot map[string]string) modelreg.Desc {
	mt := MTOCIIndex
	if docker {
		mt = MTDockerList
	}
	doc := map[string]any{"schemaVersion": 2, "mediaType": mt, "manifests": entries}
	if subject != nil {
		doc["subject"] = subject
	}
	if annot != nil {
		doc["annotations"] = annot
	}
	return g.addManifest(mt, doc)
}

func plat(d modelreg.Desc, os, arch string) modelreg.Desc {
	// platform is carried through annotations-free raw JSON: Desc has no platform field, so encode by hand
	return d
}

// PlatDesc is a descriptor with a platform, for index entries.
type PlatDesc struct {
	modelreg.Desc
	Platform *Platform `json:"platform,omitempty"`
}

type Platform struct {
	Architecture string `json:"architecture"`
	OS           string `json:"os"`
	Variant      string `json:"variant,omitempty"`
}

func (g *Graph) IndexP(docker bool, entries []PlatDesc, subject *modelreg.Desc) modelreg.Desc {
	mt := MTOCIIndex
	if docker {
		mt = MTDockerList
	}
	doc := map[string]any{"schemaVersion": 2, "mediaType": mt, "manifests": entries}
	if subject != nil {
		doc["subject"] = subject
	}
	return g.addManifest(mt, doc)
}

func (g *Graph) config(docker bool, arch string, diffIDs []string, extra string) modelreg.Desc {
	mt := MTOCIConfig
	if docker {
		mt = MTDockerConfig
	}
	doc := map[string]any{"architecture": arch, "os": "linux", "config": map[string]any{"Env": []string{"G=" + g.Name + extra}},
		"rootfs": map[string]any{"type": "layers", "diff_ids": diffIDs}}
	b, _ := json.Marshal(doc)
	return g.Blob(mt, string(b))
}

// simple image: config + n layers named by the given contents
func (g *Graph) SimpleImage(docker bool, arch string, layerContents ...string) modelreg.Desc {
	lmt := MTOCILayer
	if docker {
		lmt = MTDockerLayerGz
	}
	var layers []modelreg.Desc
	var diff []string
	for _, c := range layerContents {
		l := g.Blob(lmt, c)
		layers = append(layers, l)
		diff = append(diff, l.Digest)
	}
	cfg := g.config(docker, arch, diff, "")
	return g.Image(docker, cfg, layers, nil, "", nil)
}

// Artifact adds an artifact manifest with the empty config and one blob, optionally with a subject.
func (g *Graph) Artifact(atype, content string, subject *modelreg.Desc, annot map[string]string) modelreg.Desc {
	cfg := g.Blob(MTOCIEmpty, "{}")
	l := g.Blob("application/vnd.example.data", content)
	return g.Image(false, cfg, []modelreg.Desc{l}, subject, atype, annot)
}

func (g *Graph) DigestTag(target modelreg.Desc, suffix string) string {
	return strings.Replace(target.Digest, ":", "-", 1) + suffix
}

// Build returns the named graph of the alphabet.
func Build(name string) *Graph {
	algo := "sha256"
	if strings.HasSuffix(name, "-512") {
		algo = "sha512"
	}
	base := strings.TrimSuffix(name, "-512")
	g := New(name, algo)
	amd := &Platform{Architecture: "amd64", OS: "linux"}
	arm := &Platform{Architecture: "arm64", OS: "linux"}
	if strings.HasPrefix(base, "SH-") {
		// sharing family: SH-ab-cd[-ef]: an index of 2-3 platform images, each with two layers whose
		// contents are drawn from a pool of three by the digits
		archs := []string{"amd64", "arm64", "arm"}
		var entries []PlatDesc
		for i, part := range strings.Split(base[3:], "-") {
			var ls []string
			for _, ch := range part {
				ls = append(ls, "pool-"+string(ch))
			}
			img := g.SimpleImage(false, archs[i], ls...)
			entries = append(entries, PlatDesc{img, &Platform{Architecture: archs[i], OS: "linux"}})
		}
		g.Top = g.IndexP(false, entries, nil).Digest
		return g
	}
	switch base {
	case "G1": // OCI image, config + 2 layers
		g.Top = g.SimpleImage(false, "amd64", "layer-a", "layer-b").Digest
	case "G2": // Docker schema2 image
		g.Top = g.SimpleImage(true, "amd64", "dlayer-a", "dlayer-b").Digest
	case "G3": // index of two platform images sharing a layer
		a := g.SimpleImage(false, "amd64", "shared", "only-amd")
		b := g.SimpleImage(false, "arm64", "shared", "only-arm")
		g.Top = g.IndexP(false, []PlatDesc{{a, amd}, {b, arm}}, nil).Digest
	case "G4": // nested index
		a := g.SimpleImage(false, "amd64", "n-a")
		b := g.SimpleImage(false, "arm64", "n-b")
		inner := g.IndexP(false, []PlatDesc{{b, arm}}, nil)
		g.Top = g.IndexP(false, []PlatDesc{{a, amd}, {inner, nil}}, nil).Digest
	case "G5": // index listing the same child twice
		a := g.SimpleImage(false, "amd64", "twice")
		g.Top = g.IndexP(false, []PlatDesc{{a, amd}, {a, arm}}, nil).Digest
	case "G6": // image listing the same layer twice
		l := g.Blob(MTOCILayer, "dup-layer")
		cfg := g.config(false, "amd64", []string{l.Digest, l.Digest}, "")
		g.Top = g.Image(false, cfg, []modelreg.Desc{l, l}, nil, "", nil).Digest
	case "G7": // empty blob layer and {} config
		cfg := g.Blob(MTOCIEmpty, "{}")
		l := g.Blob(MTOCILayer, "")
		g.Top = g.Image(false, cfg, []modelreg.Desc{l}, nil, "application/vnd.example.empty", nil).Digest
	case "G8": // descriptors with inline data
		cfg := g.Blob(MTOCIEmpty, "{}")
		cfg.Data = []byte("{}")
		l := g.Blob("application/vnd.example.data", "inline-data")
		l.Data = []byte("inline-data")
		g.Top = g.Image(false, cfg, []modelreg.Desc{l}, nil, "application/vnd.example.inline", nil).Digest
	case "G9": // docker image with a foreign layer
		l1 := g.Blob(MTDockerLayerGz, "hosted")
		f := g.Foreign("foreign-content")
		cfg := g.config(true, "amd64", []string{l1.Digest, f.Digest}, "")
		g.Top = g.Image(true, cfg, []modelreg.Desc{l1, f}, nil, "", nil).Digest
	case "G10": // artifact
		g.Top = g.Artifact("application/vnd.example.sbom", "sbom-data", nil, map[string]string{"k": "v"}).Digest
	case "G11": // index with a blob-typed entry
		a := g.SimpleImage(false, "amd64", "with-blob-entry")
		bl := g.Blob(MTOCILayer, "blob-entry")
		g.Top = g.IndexP(false, []PlatDesc{{a, amd}, {bl, nil}}, nil).Digest
	case "G12": // Docker schema 1 (unsigned): fsLayers (one listed twice), no config descriptor
		l0 := g.Blob(MTDockerLayerGz, "s1-layer-0")
		l1 := g.Blob(MTDockerLayerGz, "s1-layer-1")
		doc := map[string]any{"schemaVersion": 1, "name": "proj/s1", "tag": "v1", "architecture": "amd64",
			"fsLayers": []map[string]string{{"blobSum": l0.Digest}, {"blobSum": l1.Digest}, {"blobSum": l0.Digest}},
			"history":  []map[string]string{{"v1Compatibility": `{"id":"a"}`}, {"v1Compatibility": `{"id":"b"}`}, {"v1Compatibility": `{"id":"c"}`}}}
		g.Top = g.addManifest(MTDocker1, doc).Digest
	case "G16": // OCI artifact manifest (blobs, no config): the withdrawn artifact media type
		b0 := g.Blob("application/vnd.example.data", "art-blob-0")
		b1 := g.Blob("application/vnd.example.data", "art-blob-1")
		doc := map[string]any{"mediaType": MTOCIArtifact, "artifactType": "application/vnd.example.art", "blobs": []modelreg.Desc{b0, b1}}
		g.Top = g.addManifest(MTOCIArtifact, doc).Digest
	case "G22": // index whose second entry has a media type the client does not know: a manifest-like JSON document
		a := g.SimpleImage(false, "amd64", "with-unknown-entry")
		u := g.Blob("application/vnd.example.unknown.v1+json", `{"not":"a manifest"}`)
		g.Top = g.IndexP(false, []PlatDesc{{a, amd}, {u, nil}}, nil).Digest
	case "G13": // image + two referrers + referrer-of-referrer
		img := g.SimpleImage(false, "amd64", "subj-layer")
		r1 := g.Artifact("application/vnd.example.sig", "sig-1", &img, map[string]string{"n": "1"})
		r2 := g.Artifact("application/vnd.example.sbom", "sbom-2", &img, map[string]string{"n": "2"})
		r3 := g.Artifact("application/vnd.example.sig", "sig-of-sbom", &r2, nil)
		g.Top = img.Digest
		g.Referrers = []string{r1.Digest, r2.Digest, r3.Digest}
	case "G23": // image + three leaf referrers (symmetric siblings: their registrations race)
		img := g.SimpleImage(false, "amd64", "subj3-layer")
		r1 := g.Artifact("application/vnd.example.sig", "leaf-1", &img, map[string]string{"n": "1"})
		r2 := g.Artifact("application/vnd.example.sbom", "leaf-2", &img, map[string]string{"n": "2"})
		r3 := g.Artifact("application/vnd.example.sig", "leaf-3", &img, map[string]string{"n": "3"})
		g.Top = img.Digest
		g.Referrers = []string{r1.Digest, r2.Digest, r3.Digest}
	case "G14": // image + digest tags
		img := g.SimpleImage(false, "amd64", "dt-layer")
		s1 := g.Artifact("application/vnd.example.sig", "dt-sig", nil, nil)
		s2 := g.SimpleImage(false, "amd64", "dt-att")
		g.Top = img.Digest
		g.Tags[g.DigestTag(img, ".sig")] = s1.Digest
		g.Tags[g.DigestTag(img, ".att")] = s2.Digest
	case "G15": // child manifest shared by the top index and a nested index
		a := g.SimpleImage(false, "amd64", "shared-child")
		b := g.SimpleImage(false, "arm64", "other-child")
		inner := g.IndexP(false, []PlatDesc{{a, amd}, {b, arm}}, nil)
		g.Top = g.IndexP(false, []PlatDesc{{a, amd}, {inner, nil}}, nil).Digest
	case "G17": // docker manifest list of docker images
		a := g.SimpleImage(true, "amd64", "dl-a")
		b := g.SimpleImage(true, "arm64", "dl-b")
		g.Top = g.IndexP(true, []PlatDesc{{a, amd}, {b, arm}}, nil).Digest
	case "G18": // wide index: three platforms sharing a base layer and a config-less difference
		a := g.SimpleImage(false, "amd64", "base", "a")
		b := g.SimpleImage(false, "arm64", "base", "b")
		c := g.SimpleImage(false, "arm", "base", "a")
		g.Top = g.IndexP(false, []PlatDesc{{a, amd}, {b, arm}, {c, &Platform{Architecture: "arm", OS: "linux", Variant: "v7"}}}, nil).Digest
	case "G19": // artifact that uses the empty descriptor both as config and as its only layer
		e := g.Blob(MTOCIEmpty, "{}")
		g.Top = g.Image(false, e, []modelreg.Desc{e}, nil, "application/vnd.example.marker", nil).Digest
	case "G20": // two platform images sharing one config blob, distinct layers
		la := g.Blob(MTOCILayer, "cfgshare-a")
		lb := g.Blob(MTOCILayer, "cfgshare-b")
		cfg := g.Blob(MTOCIConfig, `{"architecture":"amd64","os":"linux","rootfs":{"type":"layers","diff_ids":[]}}`)
		a := g.Image(false, cfg, []modelreg.Desc{la}, nil, "", nil)
		b := g.Image(false, cfg, []modelreg.Desc{lb}, nil, "", nil)
		g.Top = g.IndexP(false, []PlatDesc{{a, amd}, {b, arm}}, nil).Digest
	case "G21": // a digest tag whose manifest is an index that lists the tagged image again (loop)
		s1 := g.SimpleImage(false, "amd64", "loop-s1")
		s2 := g.SimpleImage(false, "arm64", "loop-s2")
		x := g.Artifact("application/vnd.example.att", "loop-att", nil, nil)
		r := g.IndexP(false, []PlatDesc{{s1, amd}, {x, nil}}, nil)
		g.Top = g.IndexP(false, []PlatDesc{{s1, amd}, {s2, arm}}, nil).Digest
		g.Tags[g.DigestTag(s1, ".bundle")] = r.Digest
	default:
		panic("unknown graph " + name)
	}
	return g
}

var All = []string{"G1", "G2", "G3", "G4", "G5", "G6", "G7", "G8", "G9", "G10", "G11", "G12", "G13", "G14", "G15", "G16", "G17", "G18", "G19", "G20", "G21", "G22", "G1-512", "G3-512"}

// AllDigests returns every digest of the graph (manifests and hosted blobs), sorted.
func (g *Graph) AllDigests() []string {
	var ds []string
	for d := range g.Blobs {
		ds = append(ds, d)
	}
	for d := range g.Manifests {
		ds = append(ds, d)
	}
	sort.Strings(ds)
	return ds
}

// Load stores the whole graph in a model repository. tag == "" loads without tagging the top.
func (g *Graph) Load(r *modelreg.Repo, tag string) {
	g.LoadSubset(r, nil)
	if tag != "" {
		r.Tags[tag] = g.Top
	}
	for t, d := range g.Tags {
		r.Tags[t] = d
	}
}

// LoadSubset stores only the digests accepted by keep (nil = all); no tags.
func (g *Graph) LoadSubset(r *modelreg.Repo, keep func(d string) bool) {
	for d, b := range g.Blobs {
		if keep == nil || keep(d) {
			r.Blobs[d] = b
		}
	}
	for d, m := range g.Manifests {
		if keep == nil || keep(d) {
			r.Manifests[d] = &modelreg.Manifest{Body: m.Body, MediaType: m.MediaType}
		}
	}
}

// FallbackTags adds the referrers fallback tags (sha256-<hex> → index of the referrers) for the
// graph's referrers, as a registry without the referrers API would hold them.
func (g *Graph) FallbackTags() {
	bySubj := map[string][]modelreg.Desc{}
	for _, rd := range g.Referrers {
		m := g.Manifests[rd]
		var doc modelreg.ManDoc
		json.Unmarshal(m.Body, &doc)
		at := doc.ArtifactType
		if at == "" && doc.Config != nil {
			at = doc.Config.MediaType
		}
		bySubj[doc.Subject.Digest] = append(bySubj[doc.Subject.Digest], modelreg.Desc{MediaType: m.MediaType, Digest: rd, Size: int64(len(m.Body)), ArtifactType: at, Annotations: doc.Annotations})
	}
	var subs []string
	for s := range bySubj {
		subs = append(subs, s)
	}
	sort.Strings(subs)
	for _, s := range subs {
		idx := g.Index(false, bySubj[s], nil, nil)
		g.Tags[strings.Replace(s, ":", "-", 1)] = idx.Digest
	}
}

// WriteLayout writes the graph as an OCI layout directory with the given tags → Top.
func (g *Graph) WriteLayout(dir string, tags ...string) error {
	return WriteLayout(dir, []*Graph{g}, [][]string{tags})
}

type idxEntry struct {
	MediaType   string            `json:"mediaType"`
	Digest      string            `json:"digest"`
	Size        int64             `json:"size"`
	Annotations map[string]string `json:"annotations,omitempty"`
}

func WriteLayout(dir string, gs []*Graph, tags [][]string) error {
	if err := os.MkdirAll(dir, 0o755); err != nil {
		return err
	}
	if err := os.WriteFile(filepath.Join(dir, "oci-layout"), []byte(`{"imageLayoutVersion":"1.0.0"}`), 0o644); err != nil {
		return err
	}
	var entries []idxEntry
	for i, g := range gs {
		put := func(d string, b []byte) error {
			sp := strings.SplitN(d, ":", 2)
			p := filepath.Join(dir, "blobs", sp[0])
			if err := os.MkdirAll(p, 0o755); err != nil {
				return err
			}
			return os.WriteFile(filepath.Join(p, sp[1]), b, 0o644)
		}
		for d, b := range g.Blobs {
			if err := put(d, b); err != nil {
				return err
			}
		}
		for d, m := range g.Manifests {
			if err := put(d, m.Body); err != nil {
				return err
			}
		}
		top := g.Manifests[g.Top]
		for _, t := range tags[i] {
			entries = append(entries, idxEntry{MediaType: top.MediaType, Digest: g.Top, Size: int64(len(top.Body)), Annotations: map[string]string{"org.opencontainers.image.ref.name": t}})
		}
		var ets []string
		for t := range g.Tags {
			ets = append(ets, t)
		}
		sort.Strings(ets)
		for _, t := range ets {
			m := g.Manifests[g.Tags[t]]
			entries = append(entries, idxEntry{MediaType: m.MediaType, Digest: g.Tags[t], Size: int64(len(m.Body)), Annotations: map[string]string{"org.opencontainers.image.ref.name": t}})
		}
	}
	idx := map[string]any{"schemaVersion": 2, "mediaType": MTOCIIndex, "manifests": entries}
	b, _ := json.Marshal(idx)
	return os.WriteFile(filepath.Join(dir, "index.json"), b, 0o644)
}

func (g *Graph) String() string {
	return fmt.Sprintf("%s(top=%s manifests=%d blobs=%d)", g.Name, g.Top[:15], len(g.Manifests), len(g.Blobs))
}
