// Package ev collects what one harness process (one shard of one step of a check) covered and
// writes it as a part file that `vt check` merges into /verif/evidence/<id>.json.
package ev

import (
	"crypto/sha256"
	"encoding/json"
	"fmt"
	"os"
	"strconv"
	"strings"
	"sync"
	"sync/atomic"
	"time"
)

// DetReplays counts executions that the explorer ran a second time from their recorded choice
// list and found identical (same observation log, outcome and verdict). Explorations run on the
// implementation itself, so these are the traces validated against it.
var DetReplays atomic.Int64

type Violation struct {
	Key    string `json:"key"`
	Msg    string `json:"msg"`
	Replay any    `json:"replay,omitempty"`
}

type part struct {
	Evaluations        int64            `json:"evaluations"`
	DistinctNontrivial int64            `json:"distinct_nontrivial"`
	States             int64            `json:"states"`
	Transitions        int64            `json:"transitions"`
	TracesValidated    int64            `json:"traces_validated_against_impl"`
	Exhaustive         bool             `json:"exhaustive"`
	Rule               string           `json:"rule"`
	Samples            []any            `json:"samples"`
	Violations         []Violation      `json:"violations"`
	HarnessErrors      []string         `json:"harness_errors"`
	Counters           map[string]int64 `json:"counters"`
	Notes              []string         `json:"notes"`
	Assumptions        []string         `json:"assumptions"`
	Info               map[string]any   `json:"info"`
}

type Rec struct {
	mu        sync.Mutex
	p         part
	start     time.Time
	budget    time.Duration
	distinct  map[[12]byte]struct{}
	vkeys     map[string]bool
	Tier      string
	Seed      int
	ShardI    int
	NShards   int
	Scratch   string
	RepoDir   string
	VerifDir  string
	SampleCap int
	item      int
}

func atoi(s string, d int) int {
	if v, err := strconv.Atoi(s); err == nil {
		return v
	}
	return d
}

func New() *Rec {
	r := &Rec{start: time.Now(), distinct: map[[12]byte]struct{}{}, vkeys: map[string]bool{}, SampleCap: 4}
	r.p.Exhaustive = true
	r.p.Counters = map[string]int64{}
	r.p.Info = map[string]any{}
	r.Tier = os.Getenv("VERIF_TIER")
	if r.Tier != "thorough" {
		r.Tier = "quick"
	}
	r.Seed = atoi(os.Getenv("VERIF_SEED"), 1)
	r.ShardI = atoi(os.Getenv("VERIF_SHARD"), 0)
	r.NShards = atoi(os.Getenv("VERIF_NSHARDS"), 1)
	r.budget = time.Duration(atoi(os.Getenv("VERIF_BUDGET_S"), 60)) * time.Second
	r.Scratch = os.Getenv("VERIF_SCRATCH")
	if r.Scratch == "" {
		r.Scratch = os.TempDir()
	}
	r.RepoDir = os.Getenv("VERIF_REPO")
	if r.RepoDir == "" {
		r.RepoDir = "/repo"
	}
	r.VerifDir = os.Getenv("VERIF_DIR")
	if r.VerifDir == "" {
		r.VerifDir = "/verif"
	}
	return r
}

func (r *Rec) Thorough() bool { return r.Tier == "thorough" }

// Mine reports whether work item idx belongs to this shard.
func (r *Rec) Mine(idx int) bool { return idx%r.NShards == r.ShardI }

// NextMine hands out consecutive work-item numbers and reports whether the item is this shard's.
func (r *Rec) NextMine() bool {
	r.mu.Lock()
	i := r.item
	r.item++
	r.mu.Unlock()
	return r.Mine(i)
}

// Expired reports whether the wall-clock budget of this run is used up. A harness that stops
// expanding because of it must call NotExhaustive.
func (r *Rec) Expired() bool { return time.Since(r.start) > r.budget }

func (r *Rec) Remaining() time.Duration { return r.budget - time.Since(r.start) }

func (r *Rec) NotExhaustive(why string) {
	r.mu.Lock()
	defer r.mu.Unlock()
	r.p.Exhaustive = false
	r.note(why)
}

func (r *Rec) note(s string) {
	for _, n := range r.p.Notes {
		if n == s {
			return
		}
	}
	if len(r.p.Notes) < 40 {
		r.p.Notes = append(r.p.Notes, s)
	}
}

func (r *Rec) Note(s string) { r.mu.Lock(); r.note(s); r.mu.Unlock() }

func (r *Rec) Rule(s string) { r.mu.Lock(); r.p.Rule = s; r.mu.Unlock() }

func (r *Rec) Assume(s string) {
	r.mu.Lock()
	defer r.mu.Unlock()
	for _, a := range r.p.Assumptions {
		if a == s {
			return
		}
	}
	r.p.Assumptions = append(r.p.Assumptions, s)
}

func (r *Rec) Eval(n int64) { r.mu.Lock(); r.p.Evaluations += n; r.mu.Unlock() }

// Distinct records a non-trivial case by key; distinct_nontrivial is the number of distinct keys.
func (r *Rec) Distinct(key string) {
	h := sha256.Sum256([]byte(key))
	var k [12]byte
	copy(k[:], h[:12])
	r.mu.Lock()
	if _, ok := r.distinct[k]; !ok {
		r.distinct[k] = struct{}{}
		r.p.DistinctNontrivial++
	}
	r.mu.Unlock()
}

func (r *Rec) States(n int64)      { r.mu.Lock(); r.p.States += n; r.mu.Unlock() }
func (r *Rec) Transitions(n int64) { r.mu.Lock(); r.p.Transitions += n; r.mu.Unlock() }
func (r *Rec) Validated(n int64)   { r.mu.Lock(); r.p.TracesValidated += n; r.mu.Unlock() }

func (r *Rec) Count(name string, n int64) { r.mu.Lock(); r.p.Counters[name] += n; r.mu.Unlock() }

func (r *Rec) Info(k string, v any) { r.mu.Lock(); r.p.Info[k] = v; r.mu.Unlock() }

func (r *Rec) Sample(v any) {
	r.mu.Lock()
	if len(r.p.Samples) < r.SampleCap {
		r.p.Samples = append(r.p.Samples, v)
	}
	r.mu.Unlock()
}

// Violation records a property violation. key must be a stable identifier of the failing case
// (it is what known-findings.txt lists); the first violation per key is kept.
func (r *Rec) Violation(key, msg string, replay any) {
	r.mu.Lock()
	defer r.mu.Unlock()
	// "observed:" marks behaviour that the harness notices but that the property's statement does
	// not speak about (an operation failing on well-formed input where the statement is a pure
	// safety clause, a deadlock where the statement is about completed operations): counted and
	// noted in the evidence, never a violation
	if strings.HasPrefix(key, "observed:") {
		k := key[len("observed:"):]
		if i := strings.IndexByte(k, ' '); i > 0 {
			k = k[:i]
		}
		r.p.Counters["observed_not_judged."+k]++
		if r.p.Counters["observed_not_judged."+k] <= 2 {
			m := msg
			if len(m) > 300 {
				m = m[:300] + "…"
			}
			r.note("observed, not judged (" + key[len("observed:"):] + "): " + m)
		}
		return
	}
	if r.vkeys[key] {
		return
	}
	r.vkeys[key] = true
	if len(msg) > 4000 {
		msg = msg[:4000] + "…"
	}
	r.p.Violations = append(r.p.Violations, Violation{Key: key, Msg: msg, Replay: replay})
}

func (r *Rec) NViolations() int { r.mu.Lock(); defer r.mu.Unlock(); return len(r.p.Violations) }

func (r *Rec) HarnessError(format string, a ...any) {
	r.mu.Lock()
	defer r.mu.Unlock()
	if len(r.p.HarnessErrors) < 20 {
		r.p.HarnessErrors = append(r.p.HarnessErrors, fmt.Sprintf(format, a...))
	}
}

// ReplayData returns the replay payload when the process was started by `check --replay`.
func (r *Rec) ReplayData() []byte {
	f := os.Getenv("VERIF_REPLAY")
	if f == "" {
		return nil
	}
	b, err := os.ReadFile(f)
	if err != nil {
		return nil
	}
	return b
}

type failer interface {
	Errorf(format string, args ...any)
}

// Flush writes the part file. It never fails the test binary for violations: the exit status of a
// check is decided by `vt check` after known findings have been taken into account.
func (r *Rec) Flush(t failer) {
	r.mu.Lock()
	defer r.mu.Unlock()
	r.p.Counters["wall_ms"] = time.Since(r.start).Milliseconds()
	if n := DetReplays.Swap(0); n > 0 {
		r.p.Counters["executions_replayed_identically"] += n
		r.p.TracesValidated += n
	}
	out := os.Getenv("VERIF_OUT")
	b, err := json.Marshal(&r.p)
	if err != nil {
		t.Errorf("ev: marshal: %v", err)
		return
	}
	if out == "" {
		os.Stdout.Write(b)
		os.Stdout.Write([]byte("\n"))
		return
	}
	if err := os.WriteFile(out, b, 0o644); err != nil {
		t.Errorf("ev: %v", err)
	}
}
