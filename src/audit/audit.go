// Package audit re-derives facts about stored images from raw storage with its own JSON structs and
// the standard library's hashes. It imports nothing from regclient (modelreg is only used for the
// shared descriptor structs and the digest helper).
package audit

import (
	"encoding/json"
	"fmt"
	"os"
	"path/filepath"
	"sort"
	"strings"

	"github.com/regclient/regclient/internal/verif/modelreg"
)

// Store gives raw access to content by digest.
type Store interface {
	Manifest(d string) (body []byte, ok bool)
	Blob(d string) (body []byte, ok bool)
}

// RepoStore adapts a model repository.
type RepoStore struct{ R *modelreg.Repo }

func (s RepoStore) Manifest(d string) ([]byte, bool) {
	if s.R == nil {
		return nil, false
	}
	m, ok := s.R.Manifests[d]
	if !ok {
		return nil, false
	}
	return m.Body, true
}

func (s RepoStore) Blob(d string) ([]byte, bool) {
	if s.R == nil {
		return nil, false
	}
	b, ok := s.R.Blobs[d]
	return b, ok
}

// DirStore adapts an OCI layout directory: manifests and blobs both live under blobs/<alg>/<hex>.
type DirStore struct{ Dir string }

func (s DirStore) read(d string) ([]byte, bool) {
	sp := strings.SplitN(d, ":", 2)
	if len(sp) != 2 || strings.ContainsAny(sp[1], "/.") || strings.ContainsAny(sp[0], "/.") {
		return nil, false
	}
	b, err := os.ReadFile(filepath.Join(s.Dir, "blobs", sp[0], sp[1]))
	if err != nil {
		return nil, false
	}
	return b, true
}
func (s DirStore) Manifest(d string) ([]byte, bool) { return s.read(d) }
func (s DirStore) Blob(d string) ([]byte, bool)     { return s.read(d) }

type ClosureOpts struct {
	IncludeExternal bool // layers with urls must be present too
	// TrustManifest, if set, is consulted for every manifest digest before descending: returning
	// true stops the walk there (the manifest itself must still be present and intact).
	TrustManifest func(d string) bool
}

type Problem struct {
	Digest string
	What   string // missing-manifest, missing-blob, corrupt, unparsable
	Via    string // parent digest
}

func (p Problem) String() string {
	return fmt.Sprintf("%s %s (referenced by %s)", p.What, short(p.Digest), short(p.Via))
}

func short(d string) string {
	if i := strings.IndexByte(d, ':'); i > 0 && len(d) > i+13 {
		return d[:i+13]
	}
	return d
}

func isManifestType(mt string) bool {
	switch mt {
	case "application/vnd.oci.image.manifest.v1+json", "application/vnd.oci.image.index.v1+json",
		"application/vnd.docker.distribution.manifest.v2+json", "application/vnd.docker.distribution.manifest.list.v2+json",
		"application/vnd.docker.distribution.manifest.v1+json", "application/vnd.docker.distribution.manifest.v1+prettyjws",
		"application/vnd.oci.artifact.manifest.v1+json":
		return true
	}
	return false
}

// Closure walks everything reachable from top (index entries at any depth, config, layers, blobs;
// `subject` is a weak back-reference and is not followed) and reports what is absent or corrupt.
// It returns the set of digests found reachable and present.
func Closure(s Store, top string, o ClosureOpts) (map[string]bool, []Problem) {
	seen := map[string]bool{}
	var probs []Problem
	var walk func(d, via string)
	walk = func(d, via string) {
		if seen[d] {
			return
		}
		body, ok := s.Manifest(d)
		if !ok {
			probs = append(probs, Problem{d, "missing-manifest", via})
			return
		}
		if modelreg.Digest(algo(d), body) != d {
			probs = append(probs, Problem{d, "corrupt", via})
			return
		}
		seen[d] = true
		if o.TrustManifest != nil && via != "" && o.TrustManifest(d) {
			return
		}
		var doc modelreg.ManDoc
		if err := json.Unmarshal(body, &doc); err != nil {
			probs = append(probs, Problem{d, "unparsable", via})
			return
		}
		for _, e := range doc.Manifests {
			if isManifestType(e.MediaType) {
				walk(e.Digest, d)
			} else {
				// unknown or blob media type: present either as a manifest or as a blob
				if _, ok := s.Manifest(e.Digest); ok && looksLikeManifest(s, e.Digest) {
					walk(e.Digest, d)
				} else {
					blob(s, e.Digest, d, seen, &probs)
				}
			}
		}
		if doc.Config != nil && doc.Config.Digest != "" {
			blob(s, doc.Config.Digest, d, seen, &probs)
		}
		for _, l := range append(append([]modelreg.Desc{}, doc.Layers...), doc.Blobs...) {
			if len(l.URLs) > 0 && !o.IncludeExternal {
				continue
			}
			blob(s, l.Digest, d, seen, &probs)
		}
		for _, l := range doc.FSLayers {
			blob(s, l.BlobSum, d, seen, &probs)
		}
	}
	walk(top, "")
	return seen, probs
}

func looksLikeManifest(s Store, d string) bool {
	b, ok := s.Manifest(d)
	if !ok {
		return false
	}
	var doc modelreg.ManDoc
	return json.Unmarshal(b, &doc) == nil && doc.SchemaVersion != 0
}

func blob(s Store, d, via string, seen map[string]bool, probs *[]Problem) {
	if seen[d] {
		return
	}
	b, ok := s.Blob(d)
	if !ok {
		*probs = append(*probs, Problem{d, "missing-blob", via})
		return
	}
	if modelreg.Digest(algo(d), b) != d {
		*probs = append(*probs, Problem{d, "corrupt", via})
		return
	}
	seen[d] = true
}

func algo(d string) string {
	if i := strings.IndexByte(d, ':'); i > 0 {
		return d[:i]
	}
	return "sha256"
}

// References returns the digests a manifest body directly references (not its subject).
func References(body []byte, includeExternal bool) []string {
	var doc modelreg.ManDoc
	if json.Unmarshal(body, &doc) != nil {
		return nil
	}
	var out []string
	for _, e := range doc.Manifests {
		out = append(out, e.Digest)
	}
	if doc.Config != nil && doc.Config.Digest != "" {
		out = append(out, doc.Config.Digest)
	}
	for _, l := range append(append([]modelreg.Desc{}, doc.Layers...), doc.Blobs...) {
		if len(l.URLs) > 0 && !includeExternal {
			continue
		}
		out = append(out, l.Digest)
	}
	for _, l := range doc.FSLayers {
		out = append(out, l.BlobSum)
	}
	return out
}

// Subject returns the subject digest of a manifest body ("" if none).
func Subject(body []byte) string {
	var doc modelreg.ManDoc
	if json.Unmarshal(body, &doc) != nil || doc.Subject == nil {
		return ""
	}
	return doc.Subject.Digest
}

// LayoutIndex is the parsed index.json of a layout.
type LayoutIndex struct {
	SchemaVersion int    `json:"schemaVersion"`
	MediaType     string `json:"mediaType"`
	Manifests     []struct {
		MediaType   string            `json:"mediaType"`
		Digest      string            `json:"digest"`
		Size        int64             `json:"size"`
		Annotations map[string]string `json:"annotations"`
	} `json:"manifests"`
}

// ReadLayout parses oci-layout and index.json. tags maps ref.name → digest; untagged lists entries
// without a ref.name; dup lists tags that occur more than once.
func ReadLayout(dir string) (idx *LayoutIndex, tags map[string]string, untagged []string, dup []string, err error) {
	lb, err := os.ReadFile(filepath.Join(dir, "oci-layout"))
	if err != nil {
		return nil, nil, nil, nil, fmt.Errorf("oci-layout: %w", err)
	}
	var lay struct {
		V string `json:"imageLayoutVersion"`
	}
	if err := json.Unmarshal(lb, &lay); err != nil || lay.V == "" {
		return nil, nil, nil, nil, fmt.Errorf("oci-layout invalid: %q (%v)", lb, err)
	}
	ib, err := os.ReadFile(filepath.Join(dir, "index.json"))
	if err != nil {
		return nil, nil, nil, nil, fmt.Errorf("index.json: %w", err)
	}
	idx = &LayoutIndex{}
	if err := json.Unmarshal(ib, idx); err != nil {
		return nil, nil, nil, nil, fmt.Errorf("index.json invalid: %v", err)
	}
	tags = map[string]string{}
	for _, m := range idx.Manifests {
		t := m.Annotations["org.opencontainers.image.ref.name"]
		if t == "" {
			untagged = append(untagged, m.Digest)
			continue
		}
		if _, ok := tags[t]; ok {
			dup = append(dup, t)
		}
		tags[t] = m.Digest
	}
	sort.Strings(dup)
	return idx, tags, untagged, dup, nil
}

// BlobFiles lists blobs/<alg>/<name> files of a layout as "alg:name" (whatever the name is).
func BlobFiles(dir string) []string {
	var out []string
	algs, _ := os.ReadDir(filepath.Join(dir, "blobs"))
	for _, a := range algs {
		if !a.IsDir() {
			out = append(out, "!file:"+a.Name())
			continue
		}
		fs, _ := os.ReadDir(filepath.Join(dir, "blobs", a.Name()))
		for _, f := range fs {
			out = append(out, a.Name()+":"+f.Name())
		}
	}
	sort.Strings(out)
	return out
}
