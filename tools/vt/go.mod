module veriftools/vt

go 1.22
