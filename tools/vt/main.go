package main

import (
	"fmt"
	"os"
)

func main() {
	if len(os.Args) < 2 {
		fmt.Fprintln(os.Stderr, "usage: vt overlay [workdir] | vt check <ID> [--tier quick|thorough] [--replay path]")
		os.Exit(2)
	}
	var err error
	switch os.Args[1] {
	case "overlay":
		err = cmdOverlay(os.Args[2:])
	case "check":
		os.Exit(cmdCheck(os.Args[2:]))
	default:
		err = fmt.Errorf("unknown command %q", os.Args[1])
	}
	if err != nil {
		fmt.Fprintln(os.Stderr, "vt:", err)
		os.Exit(2)
	}
}
