package main

// Overlay generation: binds the harnesses in /verif/src to the current working tree of /repo
// without writing to /repo.
//
//   - every non-test .go file of the regclient module that imports "sync" is copied to
//     .work/overlay/… with only that import literal redirected to the vsync shim;
//   - /verif/src/<pkg>/*.go become the virtual package internal/verif/<pkg>;
//   - /verif/src/harness/<h>/*.go are added to the package named in /verif/src/harness/<h>/TARGET
//     (an existing package for in-package harnesses, a virtual one otherwise).

import (
	"encoding/json"
	"fmt"
	"go/parser"
	"go/token"
	"io/fs"
	"os"
	"path/filepath"
	"sort"
	"strings"
)

const modPath = "github.com/regclient/regclient"


type overlayOpts struct {
	repo      string // /repo
	verif     string // /verif
	work      string // /verif/.work/<name>
	shimSync  bool   // redirect "sync" imports
	extraMods []string
}

func genOverlay(o overlayOpts) (string, string, error) {
	replace := map[string]string{}
	ovDir := filepath.Join(o.work, "overlay")
	if err := os.RemoveAll(ovDir); err != nil {
		return "", "", err
	}
	if err := os.MkdirAll(ovDir, 0o755); err != nil {
		return "", "", err
	}
	if o.shimSync {
		err := filepath.WalkDir(o.repo, func(p string, d fs.DirEntry, err error) error {
			if err != nil {
				return err
			}
			if d.IsDir() {
				n := d.Name()
				if p != o.repo && (strings.HasPrefix(n, ".") || n == "testdata" || n == "vendor") {
					return filepath.SkipDir
				}
				return nil
			}
			if !strings.HasSuffix(p, ".go") || strings.HasSuffix(p, "_test.go") {
				return nil
			}
			src, err := os.ReadFile(p)
			if err != nil {
				return err
			}
			fset := token.NewFileSet()
			f, err := parser.ParseFile(fset, p, src, parser.ImportsOnly)
			if err != nil {
				return nil // a file that does not parse is left to the compiler to report
			}
			// edits are collected per file (a file of the layout scheme gets two) and applied back to front
			type edit struct {
				start, end int
				repl       string
			}
			var edits []edit
			rel, _ := filepath.Rel(o.repo, p)
			inLayout := strings.HasPrefix(filepath.ToSlash(rel), "scheme/ocidir/")
			for _, imp := range f.Imports {
				var repl string
				switch {
				case imp.Path.Value == `"sync"`:
					repl = `"` + modPath + `/internal/verif/vsync"`
					if imp.Name == nil {
						repl = "sync " + repl
					}
				case imp.Path.Value == `"os"` && inLayout && imp.Name == nil:
					// file operations of the layout scheme become (opt-in) scheduling points
					repl = `os "` + modPath + `/internal/verif/vos"`
				default:
					continue
				}
				edits = append(edits, edit{fset.Position(imp.Path.Pos()).Offset, fset.Position(imp.Path.End()).Offset, repl})
			}
			if len(edits) > 0 {
				out := append([]byte{}, src...)
				for i := len(edits) - 1; i >= 0; i-- {
					e := edits[i]
					out = append(append(append([]byte{}, out[:e.start]...), e.repl...), out[e.end:]...)
				}
				dst := filepath.Join(ovDir, "sync", rel)
				if err := os.MkdirAll(filepath.Dir(dst), 0o755); err != nil {
					return err
				}
				if err := os.WriteFile(dst, out, 0o644); err != nil {
					return err
				}
				replace[p] = dst
			}
			return nil
		})
		if err != nil {
			return "", "", err
		}
	}
	// shared virtual packages
	srcEnts, _ := os.ReadDir(filepath.Join(o.verif, "src"))
	for _, se := range srcEnts {
		pkg := se.Name()
		if !se.IsDir() || pkg == "harness" || pkg == "crashmc" || pkg == "drivers" {
			continue
		}
		dir := filepath.Join(o.verif, "src", pkg)
		ents, err := os.ReadDir(dir)
		if err != nil {
			continue
		}
		for _, e := range ents {
			if e.IsDir() || !strings.HasSuffix(e.Name(), ".go") {
				continue
			}
			replace[filepath.Join(o.repo, "internal", "verif", pkg, e.Name())] = filepath.Join(dir, e.Name())
		}
	}
	// harnesses
	hdir := filepath.Join(o.verif, "src", "harness")
	hs, _ := os.ReadDir(hdir)
	for _, h := range hs {
		if !h.IsDir() {
			continue
		}
		tb, err := os.ReadFile(filepath.Join(hdir, h.Name(), "TARGET"))
		if err != nil {
			continue
		}
		target := strings.TrimSpace(string(tb))
		ents, _ := os.ReadDir(filepath.Join(hdir, h.Name()))
		for _, e := range ents {
			if e.IsDir() || !strings.HasSuffix(e.Name(), ".go") {
				continue
			}
			name := "zz_verif_" + h.Name() + "_" + e.Name()
			replace[filepath.Join(o.repo, target, name)] = filepath.Join(hdir, h.Name(), e.Name())
		}
	}
	keys := make([]string, 0, len(replace))
	for k := range replace {
		keys = append(keys, k)
	}
	sort.Strings(keys)
	ov := struct{ Replace map[string]string }{Replace: replace}
	b, _ := json.MarshalIndent(ov, "", " ")
	ovFile := filepath.Join(o.work, "overlay.json")
	if err := os.WriteFile(ovFile, b, 0o644); err != nil {
		return "", "", err
	}
	// alternate modfile (never touch /repo/go.mod)
	gm, err := os.ReadFile(filepath.Join(o.repo, "go.mod"))
	if err != nil {
		return "", "", err
	}
	mod := string(gm)
	for _, m := range o.extraMods {
		mod += "\nrequire " + m + "\n"
	}
	mod += "\nrequire verif.local/fastgoid v0.0.0\nreplace verif.local/fastgoid => " + filepath.Join(o.verif, "mods", "fastgoid") + "\n"
	modFile := filepath.Join(o.work, "go.mod")
	if err := os.WriteFile(modFile, []byte(mod), 0o644); err != nil {
		return "", "", err
	}
	gs, _ := os.ReadFile(filepath.Join(o.repo, "go.sum"))
	extraSum, _ := os.ReadFile(filepath.Join(o.verif, "tools", "extra.sum"))
	if err := os.WriteFile(filepath.Join(o.work, "go.sum"), append(gs, extraSum...), 0o644); err != nil {
		return "", "", err
	}
	return ovFile, modFile, nil
}

func cmdOverlay(args []string) error {
	o := overlayOpts{repo: "/repo", verif: "/verif", work: "/verif/.work/manual", shimSync: true}
	if len(args) > 0 {
		o.work = args[0]
	}
	ov, mf, err := genOverlay(o)
	if err != nil {
		return err
	}
	fmt.Println(ov, mf)
	return nil
}
