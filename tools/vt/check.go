package main

import (
	"bytes"
	"context"
	"crypto/sha256"
	"encoding/hex"
	"encoding/json"
	"fmt"
	"os"
	"os/exec"
	"path/filepath"
	"sort"
	"strconv"
	"strings"
	"sync"
	"syscall"
	"time"
)

const (
	verifDir = "/verif"
	goBin    = "go1.26.8"
)

// repoDir is the tree the checks are built from: /repo unless VERIF_REPO names a scratch
// worktree (used only to try deliberate breakages without touching /repo).
var repoDir = func() string {
	if r := os.Getenv("VERIF_REPO"); r != "" {
		return r
	}
	return "/repo"
}()

type tierInt struct {
	Quick    int `json:"quick"`
	Thorough int `json:"thorough"`
}

func (t tierInt) get(tier string) int {
	if tier == "thorough" {
		return t.Thorough
	}
	return t.Quick
}

type stepSpec struct {
	Name       string   `json:"name"`
	Pkg        string   `json:"pkg"`  // package to `go test -c`, relative to the module root
	Run        string   `json:"run"`  // -test.run pattern
	Shim       bool     `json:"shim"` // build with the sync shim
	Race       bool     `json:"race"`
	GoMaxProcs int      `json:"gomaxprocs"`
	Shards     tierInt  `json:"shards"`
	BudgetS    tierInt  `json:"budget_s"`
	Env        []string `json:"env"`
	Tiers      []string `json:"tiers"` // empty = both
	Tags       string   `json:"tags"`
	Pre        []string `json:"pre"` // commands run (in /verif) before the step, e.g. building a C helper
	// ExtraBins are further binaries built from the same overlay (go build), e.g. a traced driver
	ExtraBins []struct {
		Pkg string `json:"pkg"`
		Out string `json:"out"`
	} `json:"extra_bins"`
}

type checkSpec struct {
	Level       string     `json:"level"`
	Steps       []stepSpec `json:"steps"`
	Assumptions []string   `json:"assumptions"`
	ExtraMods   []string   `json:"extra_mods"`
}

type violation struct {
	Key    string          `json:"key"`
	Msg    string          `json:"msg"`
	Step   string          `json:"step,omitempty"`
	Replay json.RawMessage `json:"replay,omitempty"`
}

type part struct {
	Evaluations        int64             `json:"evaluations"`
	DistinctNontrivial int64             `json:"distinct_nontrivial"`
	States             int64             `json:"states"`
	Transitions        int64             `json:"transitions"`
	TracesValidated    int64             `json:"traces_validated_against_impl"`
	Exhaustive         bool              `json:"exhaustive"`
	Rule               string            `json:"rule"`
	Samples            []json.RawMessage `json:"samples"`
	Violations         []violation       `json:"violations"`
	HarnessErrors      []string          `json:"harness_errors"`
	Counters           map[string]int64  `json:"counters"`
	Notes              []string          `json:"notes"`
	Assumptions        []string          `json:"assumptions"`
	Info               map[string]any    `json:"info"`
}

func goEnv(work string) []string {
	env := os.Environ()
	env = append(env,
		"GOFLAGS=-mod=mod", "GOPROXY=off", "GOSUMDB=off", "GOTOOLCHAIN=local",
		"GOCACHE="+filepath.Join(verifDir, ".cache", "go-build"),
		"GOTMPDIR="+filepath.Join(verifDir, ".cache", "tmp"),
	)
	return env
}

func cmdCheck(args []string) int {
	if len(args) < 1 {
		fmt.Fprintln(os.Stderr, "usage: vt check <ID> [--tier quick|thorough] [--replay path]")
		return 2
	}
	id := args[0]
	tier := os.Getenv("VERIF_TIER")
	replay := ""
	for i := 1; i < len(args); i++ {
		switch args[i] {
		case "--tier":
			i++
			tier = args[i]
		case "--replay":
			i++
			replay = args[i]
		}
	}
	if tier != "thorough" {
		tier = "quick"
	}
	seed := 1
	if s, err := strconv.Atoi(os.Getenv("VERIF_SEED")); err == nil {
		seed = s
	}
	start := time.Now()
	b, err := os.ReadFile(filepath.Join(verifDir, "checks", id+".json"))
	if err != nil {
		fmt.Fprintln(os.Stderr, "vt: unknown check:", err)
		return 2
	}
	var spec checkSpec
	if err := json.Unmarshal(b, &spec); err != nil {
		fmt.Fprintln(os.Stderr, "vt: checks/"+id+".json:", err)
		return 2
	}
	work := filepath.Join(verifDir, ".work", id)
	evDir := filepath.Join(verifDir, "evidence")
	if repoDir != "/repo" {
		h := sha256.Sum256([]byte(repoDir))
		work = filepath.Join(verifDir, ".work", id+"-"+hex.EncodeToString(h[:4]))
		evDir = filepath.Join(work, "evidence") // a scratch tree never overwrites the real evidence
	}
	os.MkdirAll(work, 0o755)
	// one run of a check at a time per work directory: the shards' scratch directories live below it
	// and are wiped when a run starts (a second run started beside a long one used to pull them away
	// from under it). The lock is released when the process exits.
	if lf, err := os.OpenFile(filepath.Join(work, ".lock"), os.O_CREATE|os.O_RDWR, 0o644); err == nil {
		if err := syscall.Flock(int(lf.Fd()), syscall.LOCK_EX|syscall.LOCK_NB); err != nil {
			fmt.Fprintf(os.Stderr, "vt: another run of %s is using %s, waiting for it to finish\n", id, work)
			_ = syscall.Flock(int(lf.Fd()), syscall.LOCK_EX)
		}
		defer lf.Close()
	}
	os.MkdirAll(filepath.Join(verifDir, ".cache", "tmp"), 0o755)
	os.MkdirAll(evDir, 0o755)

	var replaySpec struct {
		Property string          `json:"property"`
		Step     string          `json:"step"`
		Key      string          `json:"key"`
		Replay   json.RawMessage `json:"replay"`
	}
	if replay != "" {
		rb, err := os.ReadFile(replay)
		if err != nil {
			fmt.Fprintln(os.Stderr, "vt:", err)
			return 2
		}
		if err := json.Unmarshal(rb, &replaySpec); err != nil {
			fmt.Fprintln(os.Stderr, "vt: replay file:", err)
			return 2
		}
	}

	type stepResult struct {
		name  string
		parts []part
		wall  float64
		aux   bool
	}
	var results []stepResult
	var harnessErrs []string
	overlays := map[bool][2]string{}
	for _, st := range spec.Steps {
		if len(st.Tiers) > 0 && !contains(st.Tiers, tier) {
			continue
		}
		if replay != "" && replaySpec.Step != "" && replaySpec.Step != st.Name {
			continue
		}
		for _, pre := range st.Pre {
			c := exec.Command("bash", "-c", pre)
			c.Dir = verifDir
			c.Env = goEnv(work)
			if out, err := c.CombinedOutput(); err != nil {
				harnessErrs = append(harnessErrs, fmt.Sprintf("step %s pre %q: %v\n%s", st.Name, pre, err, out))
			}
		}
		ov, ok := overlays[st.Shim]
		if !ok {
			w := filepath.Join(work, map[bool]string{true: "shim", false: "plain"}[st.Shim])
			os.MkdirAll(w, 0o755)
			of, mf, err := genOverlay(overlayOpts{repo: repoDir, verif: verifDir, work: w, shimSync: st.Shim, extraMods: spec.ExtraMods})
			if err != nil {
				fmt.Fprintln(os.Stderr, "vt: overlay:", err)
				return 2
			}
			ov = [2]string{of, mf}
			overlays[st.Shim] = ov
		}
		bin := filepath.Join(work, "bin", st.Name+".test")
		os.MkdirAll(filepath.Dir(bin), 0o755)
		bargs := []string{"test", "-c", "-vet=off", "-overlay", ov[0], "-modfile", ov[1], "-o", bin}
		if st.Race {
			bargs = append(bargs, "-race")
		}
		if st.Tags != "" {
			bargs = append(bargs, "-tags", st.Tags)
		}
		cover := os.Getenv("VERIF_COVER") != ""
		if cover {
			// measurement aid (bin/covreport): which regclient statements the check executes at all
			lc := exec.Command(goBin, "list", "./...")
			lc.Dir = repoDir
			lc.Env = goEnv(work)
			lo, _ := lc.Output()
			bargs = append(bargs, "-cover", "-covermode=set", "-coverpkg="+strings.Join(strings.Fields(string(lo)), ","))
		}
		bargs = append(bargs, st.Pkg)
		buildDir := repoDir
		if cover {
			// the cover tool does not follow overlays: materialise the overlaid tree and build there
			tree := filepath.Join(work, "covtree")
			os.RemoveAll(tree)
			if out, err := exec.Command("rsync", "-a", "--exclude", ".git", repoDir+"/", tree+"/").CombinedOutput(); err != nil {
				fmt.Printf("BUILD-FAILED property=%s step=%s: covtree: %v\n%s\n", id, st.Name, err, out)
				return 2
			}
			var ovj struct{ Replace map[string]string }
			ob, _ := os.ReadFile(ov[0])
			json.Unmarshal(ob, &ovj)
			for k, v := range ovj.Replace {
				rel, err := filepath.Rel(repoDir, k)
				if err != nil || strings.HasPrefix(rel, "..") {
					continue
				}
				b, err := os.ReadFile(v)
				if err != nil {
					continue
				}
				os.MkdirAll(filepath.Dir(filepath.Join(tree, rel)), 0o755)
				os.WriteFile(filepath.Join(tree, rel), b, 0o644)
			}
			buildDir = tree
			nb := []string{}
			for i := 0; i < len(bargs); i++ {
				if bargs[i] == "-overlay" {
					i++
					continue
				}
				nb = append(nb, bargs[i])
			}
			bargs = nb
		}
		bc := exec.Command(goBin, bargs...)
		bc.Dir = buildDir
		bc.Env = goEnv(work)
		if out, err := bc.CombinedOutput(); err != nil {
			fmt.Printf("BUILD-FAILED property=%s step=%s: %v\n%s\n", id, st.Name, err, out)
			return 2
		}
		for _, xb := range st.ExtraBins {
			xc := exec.Command(goBin, "build", "-overlay", ov[0], "-modfile", ov[1], "-o", filepath.Join(work, "bin", xb.Out), xb.Pkg)
			xc.Dir = repoDir
			xc.Env = goEnv(work)
			if out, err := xc.CombinedOutput(); err != nil {
				fmt.Printf("BUILD-FAILED property=%s step=%s extra %s: %v\n%s\n", id, st.Name, xb.Pkg, err, out)
				return 2
			}
		}
		n := st.Shards.get(tier)
		if n <= 0 {
			n = 1
		}
		if replay != "" {
			n = 1
		}
		budget := st.BudgetS.get(tier)
		if budget <= 0 {
			budget = 60
		}
		sstart := time.Now()
		parts := make([]part, n)
		errs := make([]string, n)
		var wg sync.WaitGroup
		sem := make(chan struct{}, 16)
		for i := 0; i < n; i++ {
			wg.Add(1)
			go func(i int) {
				defer wg.Done()
				sem <- struct{}{}
				defer func() { <-sem }()
				rdir := filepath.Join(work, "run", st.Name, fmt.Sprintf("s%d", i))
				os.RemoveAll(rdir)
				os.MkdirAll(rdir, 0o755)
				outFile := filepath.Join(rdir, "part.json")
				ctx, cancel := context.WithTimeout(context.Background(), time.Duration(budget*4+180)*time.Second)
				defer cancel()
				c := exec.CommandContext(ctx, bin, "-test.run", st.Run, "-test.timeout", "0", "-test.count", "1")
				if cover {
					c.Args = append(c.Args, "-test.coverprofile="+filepath.Join(work, fmt.Sprintf("cover-%s-%d.out", st.Name, i)))
				}
				c.Dir = rdir
				gmp := st.GoMaxProcs
				env := append(goEnv(work),
					"VERIF_TIER="+tier, "VERIF_SEED="+strconv.Itoa(seed),
					"VERIF_SHARD="+strconv.Itoa(i), "VERIF_NSHARDS="+strconv.Itoa(n),
					"VERIF_OUT="+outFile, "VERIF_BUDGET_S="+strconv.Itoa(budget),
					"VERIF_SCRATCH="+rdir, "VERIF_DIR="+verifDir, "VERIF_REPO="+repoDir,
					"VERIF_PROPERTY="+id, "VERIF_BIN_DIR="+filepath.Join(work, "bin"),
					"TMPDIR="+rdir,
				)
				godebug := "asynctimerchan=0"
				if gmp > 0 {
					env = append(env, "GOMAXPROCS="+strconv.Itoa(gmp))
					if gmp == 1 {
						godebug += ",asyncpreemptoff=1"
					}
				}
				env = append(env, "GODEBUG="+godebug)
				if st.Race {
					// reports go to files the harness reads at the end; the run itself continues
					env = append(env, "GORACE=halt_on_error=0 exitcode=0 log_path="+filepath.Join(rdir, "racelog"))
				}
				if replay != "" {
					rf := filepath.Join(rdir, "replay.json")
					os.WriteFile(rf, replaySpec.Replay, 0o644)
					env = append(env, "VERIF_REPLAY="+rf)
				}
				env = append(env, st.Env...)
				c.Env = env
				var out bytes.Buffer
				c.Stdout = &out
				c.Stderr = &out
				err := c.Run()
				if replay != "" {
					fmt.Print(out.String())
				}
				pb, rerr := os.ReadFile(outFile)
				if rerr != nil {
					o := out.String()
					if len(o) > 6000 {
						o = o[:3000] + "\n...\n" + o[len(o)-3000:]
					}
					errs[i] = fmt.Sprintf("step %s shard %d: no part file (run error: %v)\n%s", st.Name, i, err, o)
					return
				}
				if jerr := json.Unmarshal(pb, &parts[i]); jerr != nil {
					errs[i] = fmt.Sprintf("step %s shard %d: bad part file: %v", st.Name, i, jerr)
					return
				}
				if err != nil && len(parts[i].Violations) == 0 && len(parts[i].HarnessErrors) == 0 {
					o := out.String()
					if len(o) > 6000 {
						o = o[:3000] + "\n...\n" + o[len(o)-3000:]
					}
					errs[i] = fmt.Sprintf("step %s shard %d: test binary failed: %v\n%s", st.Name, i, err, o)
				}
			}(i)
		}
		wg.Wait()
		for _, e := range errs {
			if e != "" {
				harnessErrs = append(harnessErrs, e)
			}
		}
		for i := range parts {
			for j := range parts[i].Violations {
				parts[i].Violations[j].Step = st.Name
			}
			for _, he := range parts[i].HarnessErrors {
				harnessErrs = append(harnessErrs, fmt.Sprintf("step %s shard %d: %s", st.Name, i, he))
			}
		}
		results = append(results, stepResult{st.Name, parts, time.Since(sstart).Seconds(), st.Race})
	}

	// merge
	cov := map[string]any{}
	var tot part
	tot.Exhaustive = true
	tot.Counters = map[string]int64{}
	var rules []string
	var stepsOut []map[string]any
	assum := append([]string{}, spec.Assumptions...)
	notes := []string{}
	info := map[string]any{}
	for _, r := range results {
		var sp part
		sp.Exhaustive = true
		sp.Counters = map[string]int64{}
		nsamp := 0
		for _, p := range r.parts {
			sp.Evaluations += p.Evaluations
			sp.DistinctNontrivial += p.DistinctNontrivial
			sp.States += p.States
			sp.Transitions += p.Transitions
			sp.TracesValidated += p.TracesValidated
			sp.Exhaustive = sp.Exhaustive && p.Exhaustive
			for k, v := range p.Counters {
				sp.Counters[k] += v
			}
			if p.Rule != "" && !contains(rules, p.Rule) {
				rules = append(rules, p.Rule)
			}
			for _, s := range p.Samples {
				if nsamp < 6 {
					tot.Samples = append(tot.Samples, s)
					nsamp++
				}
			}
			tot.Violations = append(tot.Violations, p.Violations...)
			for _, a := range p.Assumptions {
				if !contains(assum, a) {
					assum = append(assum, a)
				}
			}
			for _, n := range p.Notes {
				if !contains(notes, n) {
					notes = append(notes, n)
				}
			}
			for k, v := range p.Info {
				info[k] = v
			}
		}
		if !r.aux {
			// an auxiliary step (the free-running race pass samples schedules by design) keeps its own
			// line below; the totals and the exhaustive flag speak of the exploration steps only
			tot.Evaluations += sp.Evaluations
			tot.DistinctNontrivial += sp.DistinctNontrivial
			tot.States += sp.States
			tot.Transitions += sp.Transitions
			tot.TracesValidated += sp.TracesValidated
			tot.Exhaustive = tot.Exhaustive && sp.Exhaustive
		}
		for k, v := range sp.Counters {
			tot.Counters[r.name+"."+k] = v
		}
		stepsOut = append(stepsOut, map[string]any{
			"name": r.name, "evaluations": sp.Evaluations, "distinct_nontrivial": sp.DistinctNontrivial,
			"states": sp.States, "transitions": sp.Transitions, "exhaustive": sp.Exhaustive,
			"shards": len(r.parts), "wall_s": round1(r.wall), "auxiliary_sampling_step": r.aux,
		})
	}
	cov["evaluations"] = tot.Evaluations
	cov["distinct_nontrivial"] = tot.DistinctNontrivial
	cov["rule"] = strings.Join(rules, " || ")
	if len(tot.Samples) == 0 {
		tot.Samples = []json.RawMessage{json.RawMessage(`"none recorded"`)}
	}
	cov["samples"] = tot.Samples
	if spec.Level == "model_checking" || tot.States > 0 {
		cov["states"] = tot.States
		cov["transitions"] = tot.Transitions
		cov["traces_validated_against_impl"] = tot.TracesValidated
	}
	cov["exhaustive"] = tot.Exhaustive
	cov["steps"] = stepsOut
	cov["counters"] = tot.Counters
	if len(notes) > 0 {
		cov["notes"] = notes
	}
	for k, v := range info {
		if _, ok := cov[k]; !ok {
			cov[k] = v
		}
	}

	// classify violations against the committed known-findings file
	known := loadKnown(id)
	exit := 0
	seenKey := map[string]bool{}
	nviol := 0
	var knownHit []string
	for _, v := range tot.Violations {
		if seenKey[v.Key] {
			continue
		}
		seenKey[v.Key] = true
		if known[v.Key] {
			knownHit = append(knownHit, v.Key)
			fmt.Printf("KNOWN-FINDING: property=%s %s\n", id, v.Key)
			continue
		}
		nviol++
		h := sha256.Sum256([]byte(v.Key))
		rpDir := filepath.Join(verifDir, "replays", id)
		if repoDir != "/repo" {
			rpDir = filepath.Join(work, "replays")
		}
		rp := filepath.Join(rpDir, hex.EncodeToString(h[:6])+".json")
		os.MkdirAll(filepath.Dir(rp), 0o755)
		rb, _ := json.MarshalIndent(map[string]any{"property": id, "step": v.Step, "key": v.Key, "msg": v.Msg, "replay": v.Replay}, "", " ")
		os.WriteFile(rp, rb, 0o644)
		fmt.Printf("VIOLATION property=%s replay=%s\n  key: %s\n  %s\n", id, rp, v.Key, strings.ReplaceAll(v.Msg, "\n", "\n  "))
		exit = 1
	}
	if len(knownHit) > 0 {
		sort.Strings(knownHit)
		cov["known_findings_reproduced"] = knownHit
	}
	ev := map[string]any{
		"property_id": id,
		"tier":        tier,
		"seed":        seed,
		"level":       spec.Level,
		"coverage":    cov,
		"assumptions": assum,
		"wall_s":      round1(time.Since(start).Seconds()),
		"violations":  nviol,
	}
	if replay == "" {
		eb, _ := json.MarshalIndent(ev, "", " ")
		os.WriteFile(filepath.Join(evDir, id+".json"), append(eb, '\n'), 0o644)
	}
	if len(harnessErrs) > 0 {
		for _, e := range harnessErrs {
			fmt.Printf("HARNESS-ERROR property=%s %s\n", id, e)
		}
		if exit == 0 {
			exit = 2
		}
	}
	fmt.Printf("check %s tier=%s evaluations=%d distinct_nontrivial=%d states=%d transitions=%d exhaustive=%v violations=%d known=%d wall=%.1fs\n",
		id, tier, tot.Evaluations, tot.DistinctNontrivial, tot.States, tot.Transitions, tot.Exhaustive, nviol, len(knownHit), time.Since(start).Seconds())
	return exit
}

func loadKnown(id string) map[string]bool {
	m := map[string]bool{}
	b, err := os.ReadFile(filepath.Join(verifDir, "known-findings.txt"))
	if err != nil {
		return m
	}
	pfx := "property=" + id + " "
	for _, l := range strings.Split(string(b), "\n") {
		l = strings.TrimSpace(l)
		if strings.HasPrefix(l, pfx) {
			m[strings.TrimSpace(strings.TrimPrefix(l, pfx))] = true
		}
	}
	return m
}

func contains(l []string, s string) bool {
	for _, x := range l {
		if x == s {
			return true
		}
	}
	return false
}

func round1(f float64) float64 { return float64(int64(f*10+0.5)) / 10 }
